int main(void) {
  wuffs_zfoo__foo f;
  if (wuffs_zfoo__foo__initialize(&f, sizeof f, WUFFS_VERSION, 0).repr) return 3;
  return wuffs_zfoo__foo__bad(&f) & 1;  // a[0] is 0, not in [2 ..= 7]
}
