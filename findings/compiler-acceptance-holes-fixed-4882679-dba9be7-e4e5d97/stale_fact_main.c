int main(void) {
  wuffs_zfoo__foo* f = wuffs_zfoo__foo__alloc();  // heap, so that ASan sees index 100
  if (!f) return 3;
  return wuffs_zfoo__foo__bad(f) & 1;
}
