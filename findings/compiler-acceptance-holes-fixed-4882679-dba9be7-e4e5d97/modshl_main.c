int main(void) {
  static wuffs_zfoo__foo f;
  if (wuffs_zfoo__foo__initialize(&f, sizeof f, WUFFS_VERSION, 0).repr) return 3;
  return wuffs_zfoo__foo__bad(&f, 35) & 1;  // 35 << 3 wraps to 24; 24 - 216 underflows
}
