int main(void) {
  wuffs_zfoo__foo* f = wuffs_zfoo__foo__alloc();
  if (!f) return 3;
  static uint8_t data[8] = {1, 2, 3, 4, 5, 6, 7, 8};
  wuffs_base__io_buffer src = wuffs_base__ptr_u8__reader(data, 8, false);
  src.meta.wi = 1;  // one byte available: the second read, inside io_limit, suspends
  wuffs_base__status st = wuffs_zfoo__foo__run(f, &src);
  printf("call 1: %s ri=%zu wi=%zu n=%u\n", st.repr ? st.repr : "ok", src.meta.ri, src.meta.wi, wuffs_zfoo__foo__get_n(f));
  src.meta.wi = 4;  // three more bytes arrive; the caller resumes the coroutine
  st = wuffs_zfoo__foo__run(f, &src);
  printf("call 2: %s ri=%zu wi=%zu n=%u acc=%u\n", st.repr ? st.repr : "ok", src.meta.ri, src.meta.wi, wuffs_zfoo__foo__get_n(f), wuffs_zfoo__foo__get_acc(f));
  return 0;
}
