#!/bin/bash
# Usage: run.sh [wuffs-tree]   (default /repo)
# Before the fix: the program is accepted; resuming the coroutine after a
# suspension inside io_limit reads out of bounds (MSan and ASan reports).
# After: the compiler rejects the program.
set -u
TREE=${1:-/repo}
HERE=$(cd "$(dirname "$0")" && pwd)
export GOFLAGS=-mod=mod GOPROXY=off GOSUMDB=off GOTOOLCHAIN=local
S=$(mktemp -d /tmp/iolimit.XXXXXX); trap 'rm -rf "$S"' EXIT
mkdir -p "$S/bin" "$S/root/std/zfoo"
(cd "$TREE" && go build -o "$S/bin/" ./cmd/wuffs ./cmd/wuffs-c) || exit 2
(cd "$TREE" && git checkout -q -- go.mod 2>/dev/null)
cp "$TREE/wuffs-root-directory.txt" "$S/root/"; cp "$HERE/foo.wuffs" "$S/root/std/zfoo/foo.wuffs"
if ! out=$(cd "$S/root" && PATH="$S/bin:$PATH" wuffs gen std/zfoo 2>&1); then
  echo "REJECTED by the compiler: $(echo "$out" | grep -m1 -o 'check:.*' | cut -c1-140)"; exit 0
fi
{ echo '#define WUFFS_IMPLEMENTATION'; echo "#include \"$S/root/release/c/wuffs-unsupported-snapshot.c\""; echo '#include <stdio.h>'; cat "$HERE/main.c"; } > "$S/main.c"
clang-14 -g -O0 -fsanitize=memory -o "$S/msan" "$S/main.c" 2>/dev/null && echo "ACCEPTED; MSan: $("$S/msan" 2>&1 | grep -m1 -o 'MemorySanitizer: [a-z-]*')"
clang-14 -g -O0 -fsanitize=address,undefined -o "$S/asan" "$S/main.c" 2>/dev/null && echo "ACCEPTED; ASan: $("$S/asan" 2>&1 | grep -m1 -o 'AddressSanitizer: [a-z-]*')"
