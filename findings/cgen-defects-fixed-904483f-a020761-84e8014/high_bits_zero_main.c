int main(void) {
  wuffs_zfoo__foo* f = wuffs_zfoo__foo__alloc();
  if (!f) return 3;
  return (wuffs_zfoo__foo__bad(f, 0xFFFFFFFFFFFFFFFFull) == 0) ? 0 : 1;  // the high 0 bits are 0
}
