int main(void) {
  wuffs_zfoo__foo* f = wuffs_zfoo__foo__alloc();
  if (!f) return 3;
  // 0xFFFF ~mod* 0xFFFF == 1 in base.u16; in C, (int)65535 * (int)65535 overflows.
  return (wuffs_zfoo__foo__bad(f, 65535, 65535) == 2) ? 0 : 1;
}
