int main(void) {
  wuffs_zfoo__foo* f = wuffs_zfoo__foo__alloc();
  if (!f) return 3;
  return wuffs_zfoo__foo__get(f, 3) + wuffs_zfoo__foo__get(f, 9);  // 9: bad argument, returns 0
}
