#!/bin/bash
# Usage: run.sh [wuffs-tree]   (default /repo)
# Builds the compiler from the given tree, compiles each program here as package
# std/zfoo, and when the compiler accepts it runs it under ASan+UBSan.
# Before the fix: both are accepted and each run is memory-unsafe.
# After: both are rejected by the compiler.
set -u
TREE=${1:-/repo}
HERE=$(cd "$(dirname "$0")" && pwd)
export GOFLAGS=-mod=mod GOPROXY=off GOSUMDB=off GOTOOLCHAIN=local
S=$(mktemp -d /tmp/c01alias.XXXXXX); trap 'rm -rf "$S"' EXIT
mkdir -p "$S/bin"
(cd "$TREE" && go build -o "$S/bin/" ./cmd/wuffs ./cmd/wuffs-c) || exit 2
(cd "$TREE" && git checkout -q -- go.mod 2>/dev/null)
for p in index_alias slice_alias; do
  R="$S/$p"; mkdir -p "$R/std/zfoo"; cp "$TREE/wuffs-root-directory.txt" "$R/"
  cp "$HERE/$p.wuffs" "$R/std/zfoo/foo.wuffs"
  if ! out=$(cd "$R" && PATH="$S/bin:$PATH" wuffs gen std/zfoo 2>&1); then
    echo "$p: REJECTED by the compiler: $(echo "$out" | grep -m1 -o 'check:.*\|cannot prove.*\|parse:.*\|[^ ]*error.*' | cut -c1-160)"
    continue
  fi
  { echo '#define WUFFS_IMPLEMENTATION'; echo "#include \"$R/release/c/wuffs-unsupported-snapshot.c\""; cat "$HERE/${p}_main.c"; } > "$R/main.c"
  clang-14 -g -O0 -fsanitize=address,undefined -fno-sanitize-recover=undefined -o "$R/a.out" "$R/main.c" 2> "$R/cc.log" || { echo "$p: C compile failed"; cat "$R/cc.log"; continue; }
  "$R/a.out" > "$R/run.log" 2>&1; rc=$?
  echo "$p: ACCEPTED by the compiler; run exit=$rc: $(grep -m1 -E 'runtime error|ERROR: AddressSanitizer' "$R/run.log")"
done
