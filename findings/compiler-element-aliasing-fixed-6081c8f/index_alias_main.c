int main(void) {
  wuffs_zfoo__foo* f = wuffs_zfoo__foo__alloc();
  if (!f) return 3;
  return wuffs_zfoo__foo__bad(f, 0, 200) & 1;  // buf[0] becomes 200, then buf[200]
}
