int main(void) {
  wuffs_zfoo__foo* f = wuffs_zfoo__foo__alloc();
  if (!f) return 3;
  return wuffs_zfoo__foo__bad(f, 200) & 1;  // through the slice, buf[0] becomes 200
}
