// Standalone reproducer: decodes a file with a Wuffs io_transformer using only
// the public API, in the style of example/zcat: fixed-size source and
// destination buffers, work buffer grown when told "$short workbuf".
//   repro <lzma|xz> <file> <src_chunk> <dst_size> [expected_output_file]
#define WUFFS_IMPLEMENTATION
#include WUFFS_RELEASE_C
#include <stdio.h>
#include <stdlib.h>
#include <string.h>

static uint8_t* slurp(const char* p, size_t* n) {
  FILE* f = fopen(p, "rb"); if (!f) { perror(p); exit(2); }
  fseek(f, 0, SEEK_END); *n = (size_t)ftell(f); fseek(f, 0, SEEK_SET);
  uint8_t* b = malloc(*n ? *n : 1); if (fread(b, 1, *n, f) != *n) exit(2); fclose(f); return b;
}

int main(int argc, char** argv) {
  if (argc < 5) { fprintf(stderr, "usage\n"); return 2; }
  size_t n_in; uint8_t* in = slurp(argv[2], &n_in);
  size_t src_chunk = (size_t)atol(argv[3]), dst_size = (size_t)atol(argv[4]);
  size_t n_exp = 0; uint8_t* exp = argc > 5 ? slurp(argv[5], &n_exp) : NULL;

  wuffs_base__io_transformer* t = NULL;
  if (!strcmp(argv[1], "lzma")) t = wuffs_lzma__decoder__alloc_as__wuffs_base__io_transformer();
  if (!strcmp(argv[1], "xz"))   t = wuffs_xz__decoder__alloc_as__wuffs_base__io_transformer();
  if (!t) return 2;

  uint8_t* dst_mem = malloc(dst_size);
  wuffs_base__io_buffer dst = wuffs_base__ptr_u8__writer(dst_mem, dst_size);
  uint8_t* out = malloc(n_exp + (64u << 20)); size_t n_out = 0;
  uint8_t* work = NULL; size_t work_len = 0;
  size_t delivered = 0, consumed = 0; long calls = 0;

  for (;;) {
    // The source window: the unread bytes delivered so far (compacted: ri = 0).
    wuffs_base__io_buffer src = wuffs_base__ptr_u8__reader(in + consumed, delivered - consumed, delivered == n_in);
    src.meta.pos = consumed;
    wuffs_base__status st = wuffs_base__io_transformer__transform_io(t, &dst, &src, wuffs_base__make_slice_u8(work, work_len));
    calls++;
    if (calls > 2000000) { printf("call cap reached: consumed %zu/%zu output %zu\n", consumed, n_in, n_out); return 3; }
    size_t wrote_now = dst.meta.wi - dst.meta.ri;
    consumed += src.meta.ri;
    // The consumer drains everything that was written.
    memcpy(out + n_out, dst.data.ptr + dst.meta.ri, dst.meta.wi - dst.meta.ri);
    n_out += dst.meta.wi - dst.meta.ri;
    dst.meta.ri = dst.meta.wi;
    if (st.repr == wuffs_base__suspension__short_read) {
      if (delivered == n_in) { printf("short read on closed input\n"); return 1; }
      delivered += src_chunk; if (delivered > n_in) delivered = n_in;
      continue;
    }
    if (st.repr == wuffs_base__suspension__short_write) {
      if (wrote_now == 0 && src.meta.ri == 0 && dst.meta.wi == 0) {
        printf("NO PROGRESS: short write with nothing written into an empty %zu-byte destination (consumed %zu/%zu, output %zu, call %ld)\n",
               dst.data.len, consumed, n_in, n_out, calls);
        return 4;
      }
      wuffs_base__optional_u63 h = wuffs_base__io_transformer__dst_history_retain_length(t);
      wuffs_base__io_buffer__compact_retaining(&dst, wuffs_base__optional_u63__value_or(&h, UINT64_MAX));
      if (dst.meta.wi == dst.data.len) { printf("dst cannot be compacted\n"); return 2; }
      continue;
    }
    if (st.repr == wuffs_base__suspension__short_workbuf) {
      uint64_t need = wuffs_base__io_transformer__workbuf_len(t).min_incl;
      uint8_t* nw = malloc(need); memset(nw, 0, need);
      if (work) memcpy(nw, work, work_len);   // contents preserved
      free(work); work = nw; work_len = need;
      continue;
    }
    int same = exp ? (n_out == n_exp && !memcmp(out, exp, n_exp)) : -1;
    printf("final status: %s ; calls %ld ; consumed %zu/%zu ; output %zu bytes ; equals expected: %d\n",
           st.repr ? st.repr : "ok", calls, consumed, n_in, n_out, same);
    return (st.repr == NULL && same != 0) ? 0 : 1;
  }
}
