// Drives a Wuffs io_transformer with an explicit per-call script (source window
// [a,b), closed flag, destination writable space), using only the public API.
// After "$short write": the consumer takes everything and the destination is
// compacted (compact_retaining(dst_history_retain_length)). After "$short
// workbuf": workbuf_len().min_incl bytes, contents preserved.
//   repro_script <lzma|xz> <file> <script>
// script line: a b closed space expect_wi expect_consumed expect_wrote expect_status
#define WUFFS_IMPLEMENTATION
#include WUFFS_RELEASE_C
#include <stdio.h>
#include <stdlib.h>
#include <string.h>
static uint8_t* slurp(const char* p, size_t* n) {
  FILE* f = fopen(p, "rb"); if (!f) { perror(p); exit(2); }
  fseek(f, 0, SEEK_END); *n = (size_t)ftell(f); fseek(f, 0, SEEK_SET);
  uint8_t* b = malloc(*n ? *n : 1); if (fread(b, 1, *n, f) != *n) exit(2); fclose(f); return b;
}
int main(int argc, char** argv) {
  if (argc < 4) return 2;
  size_t n_in; uint8_t* in = slurp(argv[2], &n_in);
  wuffs_base__io_transformer* t = !strcmp(argv[1], "lzma") ? wuffs_lzma__decoder__alloc_as__wuffs_base__io_transformer()
                                                           : wuffs_xz__decoder__alloc_as__wuffs_base__io_transformer();
  FILE* sc = fopen(argv[3], "r"); if (!sc) return 2;
  size_t cap = 1 << 20; uint8_t* dst_mem = malloc(cap);
  wuffs_base__io_buffer dst = wuffs_base__ptr_u8__writer(dst_mem, cap);
  uint8_t* work = NULL; size_t work_len = 0;
  long a, b, space, ewi, eco, ewr; int closed; char est[128]; long call = 0; size_t total = 0;
  while (fscanf(sc, "%ld %ld %d %ld %ld %ld %ld %127s", &a, &b, &closed, &space, &ewi, &eco, &ewr, est) == 8) {
    call++;
    if ((long)dst.meta.wi != ewi) { printf("call %ld: my wi=%zu, the harness had wi=%ld (caller loops differ)\n", call, dst.meta.wi, ewi); return 5; }
    // exact-size copy of the source window, as a fresh reader
    uint8_t* sw = malloc((size_t)(b - a) ? (size_t)(b - a) : 1); memcpy(sw, in + a, (size_t)(b - a));
    wuffs_base__io_buffer src = wuffs_base__ptr_u8__reader(sw, (size_t)(b - a), closed != 0);
    src.meta.pos = (uint64_t)a;
    dst.data.len = dst.meta.wi + (size_t)space;
    size_t wi0 = dst.meta.wi;
    wuffs_base__status st = wuffs_base__io_transformer__transform_io(t, &dst, &src, wuffs_base__make_slice_u8(work, work_len));
    const char* s = st.repr ? st.repr : "ok";
    char sn[128]; snprintf(sn, sizeof sn, "%s", s); for (char* p = sn; *p; p++) if (*p == ' ') *p = '_';
    long co = (long)src.meta.ri, wr = (long)(dst.meta.wi - wi0);
    total += (size_t)wr;
    if (strcmp(sn, est) || co != eco || wr != ewr) {
      printf("call %ld DIFFERS from the harness: status %s consumed %ld wrote %ld ; harness saw %s %ld %ld\n", call, sn, co, wr, est, eco, ewr);
      return 6;
    }
    free(sw);
    if (st.repr == wuffs_base__suspension__short_write) {
      dst.meta.ri = dst.meta.wi;
      wuffs_base__optional_u63 h = wuffs_base__io_transformer__dst_history_retain_length(t);
      dst.data.len = cap;
      wuffs_base__io_buffer__compact_retaining(&dst, wuffs_base__optional_u63__value_or(&h, UINT64_MAX));
    } else if (st.repr == wuffs_base__suspension__short_workbuf) {
      uint64_t need = wuffs_base__io_transformer__workbuf_len(t).min_incl;
      uint8_t* nw = malloc(need); memset(nw, 0, need); if (work) memcpy(nw, work, work_len);
      free(work); work = nw; work_len = need;
    } else if (st.repr != wuffs_base__suspension__short_read) {
      printf("call %ld: FINAL status %s after %zu output bytes (same as the harness observed)\n", call, s, total);
      return st.repr ? 1 : 0;
    }
  }
  printf("script ended after %ld calls, %zu bytes\n", call, total);
  return 0;
}
