// Same stream, fixed source chunk, destination grants cycled from a list; the
// caller policy is the experiment:
//   policy 0: drain+compact only after "$short write"   (zcat-style; legal)
//   policy 1: drain+compact before EVERY call            (destination always starts empty)
//   repro_policy <lzma|xz> <file> <src_chunk> <grants_file> <policy> [expected]
#define WUFFS_IMPLEMENTATION
#include WUFFS_RELEASE_C
#include <stdio.h>
#include <stdlib.h>
#include <string.h>
static uint8_t* slurp(const char* p, size_t* n) {
  FILE* f = fopen(p, "rb"); if (!f) { perror(p); exit(2); }
  fseek(f, 0, SEEK_END); *n = (size_t)ftell(f); fseek(f, 0, SEEK_SET);
  uint8_t* b = malloc(*n ? *n : 1); if (fread(b, 1, *n, f) != *n) exit(2); fclose(f); return b;
}
int main(int argc, char** argv) {
  if (argc < 6) return 2;
  size_t n_in; uint8_t* in = slurp(argv[2], &n_in);
  size_t src_chunk = (size_t)atol(argv[3]); int policy = atoi(argv[5]);
  size_t n_exp = 0; uint8_t* exp = argc > 6 ? slurp(argv[6], &n_exp) : NULL;
  long grants[4096]; int ng = 0; FILE* gf = fopen(argv[4], "r"); while (ng < 4096 && fscanf(gf, "%ld", &grants[ng]) == 1) ng++;
  wuffs_base__io_transformer* t = !strcmp(argv[1], "lzma") ? wuffs_lzma__decoder__alloc_as__wuffs_base__io_transformer()
                                                           : wuffs_xz__decoder__alloc_as__wuffs_base__io_transformer();
  size_t cap = 1 << 20; uint8_t* dst_mem = malloc(cap);
  wuffs_base__io_buffer dst = wuffs_base__ptr_u8__writer(dst_mem, cap);
  uint8_t* out = malloc(n_exp + (8u << 20)); size_t n_out = 0;
  uint8_t* work = NULL; size_t work_len = 0; size_t delivered = 0, consumed = 0; long calls = 0, stalls = 0;
  for (;;) {
    if (policy == 1) {  // consumer takes everything, destination restarts empty
      dst.meta.ri = dst.meta.wi; dst.data.len = cap;
      wuffs_base__optional_u63 h = wuffs_base__io_transformer__dst_history_retain_length(t);
      wuffs_base__io_buffer__compact_retaining(&dst, wuffs_base__optional_u63__value_or(&h, UINT64_MAX));
    }
    long g = grants[calls % ng]; if (stalls) g = 274 << (stalls > 8 ? 8 : stalls);  // grow after a zero-progress short write
    dst.data.len = dst.meta.wi + (size_t)g; if (dst.data.len > cap) dst.data.len = cap;
    wuffs_base__io_buffer src = wuffs_base__ptr_u8__reader(in + consumed, delivered - consumed, delivered == n_in);
    src.meta.pos = consumed;
    size_t wi0 = dst.meta.wi;
    wuffs_base__status st = wuffs_base__io_transformer__transform_io(t, &dst, &src, wuffs_base__make_slice_u8(work, work_len));
    calls++; if (calls > 3000000) { printf("call cap\n"); return 3; }
    consumed += src.meta.ri;
    memcpy(out + n_out, dst.data.ptr + wi0, dst.meta.wi - wi0); n_out += dst.meta.wi - wi0;
    if (st.repr == wuffs_base__suspension__short_read) {
      stalls = 0; delivered += src_chunk; if (delivered > n_in) delivered = n_in; continue;
    }
    if (st.repr == wuffs_base__suspension__short_write) {
      stalls = (dst.meta.wi == wi0 && src.meta.ri == 0) ? stalls + 1 : 0;
      dst.meta.ri = dst.meta.wi; dst.data.len = cap;
      wuffs_base__optional_u63 h = wuffs_base__io_transformer__dst_history_retain_length(t);
      wuffs_base__io_buffer__compact_retaining(&dst, wuffs_base__optional_u63__value_or(&h, UINT64_MAX));
      continue;
    }
    if (st.repr == wuffs_base__suspension__short_workbuf) {
      uint64_t need = wuffs_base__io_transformer__workbuf_len(t).min_incl;
      uint8_t* nw = malloc(need); memset(nw, 0, need); if (work) memcpy(nw, work, work_len);
      free(work); work = nw; work_len = need; continue;
    }
    int same = exp ? (n_out == n_exp && !memcmp(out, exp, n_exp)) : -1;
    printf("policy %d: final status: %s ; calls %ld ; output %zu bytes ; equals expected: %d\n", policy, st.repr ? st.repr : "ok", calls, n_out, same);
    return st.repr ? 1 : 0;
  }
}
