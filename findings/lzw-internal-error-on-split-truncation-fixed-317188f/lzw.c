// A truncated 1-byte LZW stream, delivered (a) in one piece, (b) in two pieces
// with the source buffer compacted in between (zcat-style). Public API only.
#define WUFFS_IMPLEMENTATION
#include WUFFS_RELEASE_C
#include <stdio.h>
static const char* run(int two_pieces) {
  static uint8_t dst_mem[4096];
  wuffs_lzw__decoder dec;
  wuffs_base__status st = wuffs_lzw__decoder__initialize(&dec, sizeof dec, WUFFS_VERSION, 0);
  if (st.repr) return st.repr;
  wuffs_base__io_buffer dst = wuffs_base__ptr_u8__writer(dst_mem, sizeof dst_mem);
  uint8_t byte = 0x01;   // one byte of an LZW stream (literal width 8: codes are 9 bits wide)
  if (!two_pieces) {
    wuffs_base__io_buffer src = wuffs_base__ptr_u8__reader(&byte, 1, true);
    return wuffs_lzw__decoder__transform_io(&dec, &dst, &src, wuffs_base__empty_slice_u8()).repr;
  }
  wuffs_base__io_buffer src = wuffs_base__ptr_u8__reader(&byte, 1, false);   // EOF not known yet
  st = wuffs_lzw__decoder__transform_io(&dec, &dst, &src, wuffs_base__empty_slice_u8());
  printf("   first call: %s, consumed %zu of 1\n", st.repr ? st.repr : "ok", src.meta.ri);
  wuffs_base__io_buffer__compact(&src);      // the consumed byte is dropped, as zcat does
  src.meta.closed = true;                     // ... and now the caller learns there is no more input
  return wuffs_lzw__decoder__transform_io(&dec, &dst, &src, wuffs_base__empty_slice_u8()).repr;
}
int main(void) {
  printf("one piece : %s\n", run(0));
  const char* s = run(1);
  printf("two pieces: %s\n", s);
  return 0;
}
