#!/bin/bash
# Usage: run.sh [wuffs-tree]   (default /repo)
# Each program contains an assert that is false for every integer. Before the
# fixes the compiler accepts both; after them it rejects both.
set -u
TREE=${1:-/repo}
HERE=$(cd "$(dirname "$0")" && pwd)
export GOFLAGS=-mod=mod GOPROXY=off GOSUMDB=off GOTOOLCHAIN=local
S=$(mktemp -d /tmp/c02facts.XXXXXX); trap 'rm -rf "$S"' EXIT
mkdir -p "$S/bin"
(cd "$TREE" && go build -o "$S/bin/" ./cmd/wuffs ./cmd/wuffs-c) || exit 2
(cd "$TREE" && git checkout -q -- go.mod 2>/dev/null)
for p in self_assign compound_self; do
  R="$S/$p"; mkdir -p "$R/std/zfoo"; cp "$TREE/wuffs-root-directory.txt" "$R/"
  cp "$HERE/$p.wuffs" "$R/std/zfoo/foo.wuffs"
  if out=$(cd "$R" && PATH="$S/bin:$PATH" wuffs gen std/zfoo 2>&1); then
    echo "$p: ACCEPTED (the false assert was 'proven')"
  else
    echo "$p: REJECTED: $(echo "$out" | grep -m1 -o 'check:.*\|cannot prove.*' | cut -c1-120)"
  fi
done
