// csim driver: executes, one call at a time, what the Go side of engine C asks
// for, against C that `wuffs gen` produced from the working tree, and reports
// FACTS (status strings, buffer indexes, produced bytes, memory-comparison
// results). It never judges: every oracle is recomputed on the Go side.
//
// Built once per variant: {ASan+UBSan, -O2} x {SIMD, WUFFS_CONFIG__AVOID_CPU_ARCH}.
// A sanitizer report aborts the process; the Go side sees the pipe close,
// collects stderr and reports the script that was running.
//
// Wire format (all integers little-endian):
//   request : opcode:u8, then opcode-specific fields
//   response: opcode|0x20:u8, then fields
// Strings are u32 length + bytes. See each handler.

#define WUFFS_IMPLEMENTATION
#include WUFFS_RELEASE_C

#include <stdint.h>
#include <stdio.h>
#include <stdlib.h>
#include <string.h>
#include <unistd.h>

// ------------------------------------------------ allocation monitor (C03)
// "Generated code never allocates or frees": under ASan the allocator's
// malloc / free hooks count every call, so that a malloc+free pair inside one
// decoder call is seen too. Other builds report "unknown".
#if defined(__has_feature)
#if __has_feature(address_sanitizer)
#include <sanitizer/allocator_interface.h>
#define CSIM_ALLOC_HOOKS 1
#endif
#endif
static volatile uint32_t n_mallocs = 0, n_frees = 0;
#if defined(CSIM_ALLOC_HOOKS)
static void on_malloc(const volatile void* p, size_t n) { (void)p; (void)n; n_mallocs++; }
static void on_free(const volatile void* p) { (void)p; n_frees++; }
#endif

// ---------------------------------------------------------------- I/O helpers

static void die(const char* msg) {
  fprintf(stderr, "csim driver: %s\n", msg);
  _exit(3);
}

static void rd(void* p, size_t n) {
  uint8_t* b = (uint8_t*)p;
  while (n > 0) {
    size_t k = fread(b, 1, n, stdin);
    if (k == 0) {
      _exit(0);  // the Go side closed the pipe: normal shutdown
    }
    b += k;
    n -= k;
  }
}
static uint8_t rd8(void) { uint8_t v; rd(&v, 1); return v; }
static uint32_t rd32(void) { uint8_t b[4]; rd(b, 4); return (uint32_t)b[0] | ((uint32_t)b[1] << 8) | ((uint32_t)b[2] << 16) | ((uint32_t)b[3] << 24); }
static uint64_t rd64(void) { uint64_t lo = rd32(); uint64_t hi = rd32(); return lo | (hi << 32); }

static void wr(const void* p, size_t n) {
  if (n && fwrite(p, 1, n, stdout) != n) {
    die("short write to the Go side");
  }
}
static void wr8(uint8_t v) { wr(&v, 1); }
static void wr32(uint32_t v) { uint8_t b[4] = {(uint8_t)v, (uint8_t)(v >> 8), (uint8_t)(v >> 16), (uint8_t)(v >> 24)}; wr(b, 4); }
static void wr64(uint64_t v) { wr32((uint32_t)v); wr32((uint32_t)(v >> 32)); }
static void wrstr(const char* s) {
  if (!s) { wr32(0xFFFFFFFFu); return; }  // NULL status = ok
  size_t n = strlen(s);
  wr32((uint32_t)n);
  wr(s, n);
}

// ------------------------------------------------------------ decoder tables

typedef wuffs_base__status (*init_fn)(void*, size_t, uint64_t, uint32_t);
typedef wuffs_base__io_transformer* (*up_xform_fn)(void*);
typedef size_t (*sizeof_fn)(void);

// Typed wrappers (no function-pointer casts, so that nothing here is itself
// undefined behaviour).
#define DEF_XFORM(pkg)                                                                                   \
  static wuffs_base__status init_##pkg(void* p, size_t n, uint64_t v, uint32_t o) {                      \
    return wuffs_##pkg##__decoder__initialize((wuffs_##pkg##__decoder*)p, n, v, o);                      \
  }                                                                                                      \
  static wuffs_base__io_transformer* up_##pkg(void* p) {                                                 \
    return wuffs_##pkg##__decoder__upcast_as__wuffs_base__io_transformer((wuffs_##pkg##__decoder*)p);    \
  }

DEF_XFORM(deflate)
DEF_XFORM(zlib)
DEF_XFORM(gzip)
DEF_XFORM(lzw)
DEF_XFORM(bzip2)
DEF_XFORM(lzma)
DEF_XFORM(xz)
DEF_XFORM(lzip)

typedef struct {
  const char* name;
  sizeof_fn size;
  init_fn init;
  up_xform_fn up;
} xform_desc;

#define XFORM(pkg) {#pkg, sizeof__wuffs_##pkg##__decoder, init_##pkg, up_##pkg}
static const xform_desc xforms[] = {
    XFORM(deflate), XFORM(zlib), XFORM(gzip), XFORM(lzw), XFORM(bzip2), XFORM(lzma), XFORM(xz), XFORM(lzip),
};
#define NUM_XFORMS (sizeof(xforms) / sizeof(xforms[0]))

// ------------------------------------------------------------------- state

static uint8_t* obj = NULL;       // object memory (exact sizeof, own allocation)
static size_t obj_size = 0;
static const xform_desc* cur = NULL;
static wuffs_base__io_transformer* xf = NULL;

// Destination storage: two arenas used alternately, so that "relocating" the
// destination (presenting the retained bytes at a different address and
// alignment, with different bytes beyond wi) costs one memcpy of the retained
// bytes - no allocation, no fill. What lies beyond wi after a relocation is
// whatever the other arena held: earlier output, i.e. realistic stale data.
static uint8_t* dst_arena[2] = {NULL, NULL};
static int dst_cur = 0;
static size_t dst_off = 0;        // alignment offset of dst_mem inside its arena (0..15)
static uint8_t* dst_mem = NULL;   // = dst_arena[dst_cur] + dst_off
static size_t dst_cap = 0;
static wuffs_base__io_buffer_meta dst_meta;

static uint8_t* work_mem = NULL;  // work buffer storage (stable address while it does not grow)
static size_t work_cap = 0;

static uint64_t prng_state = 1;
static uint8_t prng8(void) {
  prng_state += 0x9E3779B97F4A7C15ull;
  uint64_t z = prng_state;
  z = (z ^ (z >> 30)) * 0xBF58476D1CE4E5B9ull;
  z = (z ^ (z >> 27)) * 0x94D049BB133111EBull;
  return (uint8_t)((z ^ (z >> 31)) >> 56);
}

// fill: 0 zeroes, 1 0xFF, 2 pseudo-random (seeded), 3 leave as is.
static void fill_mem(uint8_t* p, size_t n, uint32_t fill, uint32_t seed) {
  switch (fill) {
    case 0: memset(p, 0x00, n); break;
    case 1: memset(p, 0xFF, n); break;
    case 2: {
      // Pseudo-random bytes for the first 4 KiB, then replicated (a multi-MiB
      // object or buffer must not cost a byte-at-a-time loop per run).
      prng_state = 0x1234567ull + seed;
      size_t head = n < 4096 ? n : 4096;
      for (size_t i = 0; i < head; i++) p[i] = prng8();
      for (size_t have = head; have < n;) {
        size_t k = have < n - have ? have : n - have;
        memcpy(p + have, p, k);
        have += k;
      }
      break;
    }
    default: break;
  }
}

// 'N': (re)create the object.
//   kind:u32 fill:u32 seed:u32 flags:u32 sizeof_mode:u32 (0 right,1 too small,2 too big)
//   version_mode:u32 (0 right, 1 wrong) dst_cap:u32 dst_fill:u32 fresh:u8 (1 = new allocation, 0 = reuse memory)
// -> status, sizeof:u32
static void do_new(void) {
  uint32_t kind = rd32(), fill = rd32(), seed = rd32(), flags = rd32();
  uint32_t sizeof_mode = rd32(), version_mode = rd32(), dcap = rd32(), dfill = rd32();
  uint8_t fresh = rd8();
  if (kind >= NUM_XFORMS) die("bad decoder kind");
  const xform_desc* d = &xforms[kind];
  size_t n = d->size();
  if (fresh || !obj || obj_size != n) {
    free(obj);
    obj = (uint8_t*)malloc(n);
    if (!obj) die("out of memory (object)");
    obj_size = n;
    if (fill == 3) fill = 0;  // nothing to keep
  }
  fill_mem(obj, n, fill, seed);
  cur = d;
  size_t claimed = n;
  if (sizeof_mode == 1) claimed = n - 1;
  if (sizeof_mode == 2) claimed = n + 1;
  uint64_t ver = WUFFS_VERSION;
  if (version_mode == 1) ver = WUFFS_VERSION ^ 0x0001000000000000ull;
  wuffs_base__status st = d->init(obj, claimed, ver, flags);
  xf = d->up(obj);

  if (dcap != dst_cap || !dst_arena[0]) {
    free(dst_arena[0]);
    free(dst_arena[1]);
    dst_arena[0] = (uint8_t*)malloc(dcap + 32);
    dst_arena[1] = (uint8_t*)malloc(dcap + 32);
    if (!dst_arena[0] || !dst_arena[1]) die("out of memory (dst)");
    dst_cap = dcap;
  }
  fill_mem(dst_arena[0], dcap + 32, dfill, seed + 17);
  fill_mem(dst_arena[1], dcap + 32, dfill, seed + 18);
  dst_cur = 0;
  dst_off = seed & 15;
  dst_mem = dst_arena[0] + dst_off;
  memset(&dst_meta, 0, sizeof(dst_meta));

  wr8('N' | 0x20);
  wrstr(st.repr);
  wr32((uint32_t)n);
}

// 'C': one transform_io call.
//   src_len:u32 src_bytes src_ri:u32 closed:u8 pos:u64
//   dst_space:u32 work_len:u32 argshape:u32 (0 ok, 1 NULL src, 2 NULL dst)
// -> status, src_ri:u32, src_ok:u8,
//    dst_wi_before:u32 dst_wi_after:u32 dst_ri:u32 dst_pos:u64 dst_closed:u8 dst_prefix_ok:u8 dst_len:u32,
//    new bytes (u32 len + bytes),
//    workbuf_len min:u64 max:u64, history: has:u8 value:u64
static void apply_drain(uint32_t k) {
  if (k > dst_meta.wi - dst_meta.ri) k = (uint32_t)(dst_meta.wi - dst_meta.ri);
  dst_meta.ri += k;
}

static uint32_t apply_compact(uint32_t retain, uint8_t relocate) {
  size_t from = dst_meta.ri;
  if (dst_meta.wi >= retain && dst_meta.wi - retain < from) from = dst_meta.wi - retain;
  if (dst_meta.wi < retain) from = 0;
  size_t n = dst_meta.wi - from;
  if (relocate) {
    int other = 1 - dst_cur;
    size_t off = (dst_off + 5) & 15;
    uint8_t* nm = dst_arena[other] + off;
    memcpy(nm, dst_mem + from, n);
    dst_cur = other;
    dst_off = off;
    dst_mem = nm;
  } else {
    memmove(dst_mem, dst_mem + from, n);
  }
  dst_meta.pos += from;
  dst_meta.ri -= from;
  dst_meta.wi -= from;
  return (uint32_t)from;
}

// 'A': allocate (and fill) object memory for a decoder kind WITHOUT calling
// initialize: the object is "raw". kind:u32 fill:u32 seed:u32 dst_cap:u32
static void do_alloc_raw(void) {
  uint32_t kind = rd32(), fill = rd32(), seed = rd32(), dcap = rd32();
  if (kind >= NUM_XFORMS) die("bad decoder kind");
  const xform_desc* d = &xforms[kind];
  size_t n = d->size();
  free(obj);
  obj = (uint8_t*)malloc(n);
  if (!obj) die("out of memory (object)");
  obj_size = n;
  fill_mem(obj, n, fill == 3 ? 0 : fill, seed);
  cur = d;
  xf = d->up(obj);
  if (dcap != dst_cap || !dst_arena[0]) {
    free(dst_arena[0]);
    free(dst_arena[1]);
    dst_arena[0] = (uint8_t*)malloc(dcap + 32);
    dst_arena[1] = (uint8_t*)malloc(dcap + 32);
    if (!dst_arena[0] || !dst_arena[1]) die("out of memory (dst)");
    dst_cap = dcap;
  }
  memset(dst_arena[0], 0, dcap + 32);
  memset(dst_arena[1], 0, dcap + 32);
  dst_cur = 0;
  dst_off = 0;
  dst_mem = dst_arena[0];
  memset(&dst_meta, 0, sizeof(dst_meta));
  wr8('A' | 0x20);
  wr32((uint32_t)n);
}

// 'C' begins with the consumer's actions since the previous call (one round
// trip per call instead of three): pre:u8 bit0 = drain (k:u32 follows),
// bit1 = compact (retain:u32 relocate:u8 follow). The reply starts with
// drained:u32 moved:u32.
static void do_call(void) {
  uint8_t pre = rd8();
  uint32_t drained = 0, moved = 0;
  if (pre & 1) {
    uint32_t k = rd32();
    size_t before = dst_meta.ri;
    apply_drain(k);
    drained = (uint32_t)(dst_meta.ri - before);
  }
  if (pre & 2) {
    uint32_t retain = rd32();
    uint8_t relocate = rd8();
    moved = apply_compact(retain, relocate);
  }
  uint32_t src_len = rd32();
  // Exact-size allocation: any read at or beyond wi is a heap overflow ASan sees.
  uint8_t* src = (uint8_t*)malloc(src_len ? src_len : 1);
  uint8_t* shadow = (uint8_t*)malloc(src_len ? src_len : 1);
  if (!src || !shadow) die("out of memory (src)");
  rd(src, src_len);
  memcpy(shadow, src, src_len);
  uint32_t src_ri = rd32();
  uint8_t closed = rd8();
  uint64_t pos = rd64();
  uint32_t dst_space = rd32(), work_len = rd32(), argshape = rd32();
  if (!xf) die("call before new");
  if (src_ri > src_len) die("bad src_ri");

  wuffs_base__io_buffer s;
  s.data.ptr = src;
  s.data.len = src_len;
  s.meta.wi = src_len;
  s.meta.ri = src_ri;
  s.meta.pos = pos;
  s.meta.closed = closed != 0;

  wuffs_base__io_buffer dbuf;
  size_t space = dst_cap - dst_meta.wi;
  if (space > dst_space) space = dst_space;
  dbuf.data.ptr = dst_mem;
  dbuf.data.len = dst_meta.wi + space;
  dbuf.meta = dst_meta;
  size_t wi_before = dst_meta.wi;
  // Shadow of the already-written destination bytes. For a large prefix only
  // its head (4 KiB) and its tail (128 KiB, where history copies read from)
  // are shadowed: the full copy made long un-compacted runs quadratic.
  size_t sh_head = wi_before, sh_tail = 0;
  if (wi_before > (4096 + 131072)) {
    sh_head = 4096;
    sh_tail = 131072;
  }
  uint8_t* dshadow = (uint8_t*)malloc(sh_head + sh_tail + 1);
  if (!dshadow) die("out of memory (dst shadow)");
  memcpy(dshadow, dst_mem, sh_head);
  memcpy(dshadow + sh_head, dst_mem + wi_before - sh_tail, sh_tail);

  if (work_len > work_cap) {
    // Growing keeps the contents (the API asks the caller to preserve them).
    uint8_t* nw = (uint8_t*)malloc(work_len);
    if (!nw) die("out of memory (work)");
    memset(nw, 0xA7, work_len);
    if (work_mem) memcpy(nw, work_mem, work_cap);
    free(work_mem);
    work_mem = nw;
    work_cap = work_len;
  }
  wuffs_base__slice_u8 work;
  work.ptr = work_len ? work_mem : NULL;
  work.len = work_len;

  uint32_t mallocs0 = n_mallocs, frees0 = n_frees;
  wuffs_base__status st = wuffs_base__io_transformer__transform_io(
      xf, argshape == 2 ? NULL : &dbuf, argshape == 1 ? NULL : &s, work);
  uint32_t mallocs1 = n_mallocs - mallocs0, frees1 = n_frees - frees0;

  uint8_t src_ok = (s.data.ptr == src) && (s.data.len == src_len) && (s.meta.wi == src_len) &&
                   (s.meta.pos == pos) && ((s.meta.closed != 0) == (closed != 0)) &&
                   (memcmp(shadow, src, src_len) == 0);
  uint8_t prefix_ok = (dbuf.data.ptr == dst_mem) && (memcmp(dshadow, dst_mem, sh_head) == 0) &&
                      (memcmp(dshadow + sh_head, dst_mem + wi_before - sh_tail, sh_tail) == 0);
  dst_meta = dbuf.meta;

  wr8('C' | 0x20);
  wr32(drained);
  wr32(moved);
  wrstr(st.repr);
  wr32((uint32_t)s.meta.ri);
  wr8(src_ok);
  wr32((uint32_t)wi_before);
  wr32((uint32_t)dbuf.meta.wi);
  wr32((uint32_t)dbuf.meta.ri);
  wr64(dbuf.meta.pos);
  wr8(dbuf.meta.closed ? 1 : 0);
  wr8(prefix_ok);
  wr32((uint32_t)dbuf.data.len);
  if (dbuf.meta.wi >= wi_before && dbuf.meta.wi <= dbuf.data.len) {
    wr32((uint32_t)(dbuf.meta.wi - wi_before));
    wr(dst_mem + wi_before, dbuf.meta.wi - wi_before);
  } else {
    wr32(0);
  }
  wuffs_base__range_ii_u64 wl = wuffs_base__io_transformer__workbuf_len(xf);
  wr64(wl.min_incl);
  wr64(wl.max_incl);
  wuffs_base__optional_u63 h = wuffs_base__io_transformer__dst_history_retain_length(xf);
  wr8(wuffs_base__optional_u63__has_value(&h) ? 1 : 0);
  wr64(wuffs_base__optional_u63__value_or(&h, 0));
#if defined(CSIM_ALLOC_HOOKS)
  wr32(mallocs1);
  wr32(frees1);
#else
  (void)mallocs1; (void)frees1;
  wr32(0xFFFFFFFFu);
  wr32(0xFFFFFFFFu);
#endif

  free(src);
  free(shadow);
  free(dshadow);
}

// 'W': query workbuf_len and dst_history_retain_length without a call.
static void do_query(void) {
  if (!xf) die("query before new");
  wr8('W' | 0x20);
  wuffs_base__range_ii_u64 wl = wuffs_base__io_transformer__workbuf_len(xf);
  wr64(wl.min_incl);
  wr64(wl.max_incl);
  wuffs_base__optional_u63 h = wuffs_base__io_transformer__dst_history_retain_length(xf);
  wr8(wuffs_base__optional_u63__has_value(&h) ? 1 : 0);
  wr64(wuffs_base__optional_u63__value_or(&h, 0));
}

// 'D': the consumer drains k bytes (dst.ri += k).
static void do_drain(void) {
  uint32_t k = rd32();
  size_t before = dst_meta.ri;
  apply_drain(k);
  wr8('D' | 0x20);
  wr32((uint32_t)(dst_meta.ri - before));
}

// 'K': compact the destination, keeping at least `retain` bytes of history
// before wi (and every undrained byte), exactly as wuffs_base__io_buffer__
// compact_retaining does; relocate:u8 additionally moves it to a new
// allocation.
static void do_compact(void) {
  uint32_t retain = rd32();
  uint8_t relocate = rd8();
  uint32_t from = apply_compact(retain, relocate);
  wr8('K' | 0x20);
  wr32(from);
}

// ------------------------------------------------------------ image decoders
//
// 'I': kind:u32 fill:u32 seed:u32 flags:u32 -> status, sizeof:u32
//      (re)creates an image decoder object in its own exact-size allocation.
// 'J': method:u8 (0 decode_image_config, 1 decode_frame_config, 2 decode_frame,
//      3 restart_frame(index:u64, io_position:u64 follow the common fields),
//      4 tell_me_more (into a 64-byte scratch destination))
//      src_len:u32 bytes src_ri:u32 closed:u8 pos:u64 pixfill:u8
//   -> status, src_ri:u32, src_ok:u8, mallocs:u32, frees:u32, then
//      method 0: width:u32 height:u32 pixfmt:u32 first_frame_io_position:u64 work_min:u64 work_max:u64
//      method 1: rect(4 x u32) duration:u64 index:u64 io_position:u64 disposal:u8
//      method 2: too_big:u8 dirty rect(4 x u32) pixel_hash:u64 npix:u32 pixels (only when they fit 64 KiB)
//      then always: num_decoded_frame_configs:u64 num_decoded_frames:u64
// The pixel buffer is BGRA_NONPREMUL, allocated when the first decode_frame is
// asked for (pre-filled as asked), and kept for the following frames.
typedef wuffs_base__image_decoder* (*up_img_fn)(void*);
#define DEF_IMG(pkg)                                                                                     \
  static wuffs_base__status initimg_##pkg(void* p, size_t n, uint64_t v, uint32_t o) {                   \
    return wuffs_##pkg##__decoder__initialize((wuffs_##pkg##__decoder*)p, n, v, o);                      \
  }                                                                                                      \
  static wuffs_base__image_decoder* upimg_##pkg(void* p) {                                               \
    return wuffs_##pkg##__decoder__upcast_as__wuffs_base__image_decoder((wuffs_##pkg##__decoder*)p);     \
  }
DEF_IMG(bmp)
DEF_IMG(gif)
DEF_IMG(jpeg)
DEF_IMG(netpbm)
DEF_IMG(nie)
DEF_IMG(png)
DEF_IMG(qoi)
DEF_IMG(targa)
DEF_IMG(wbmp)
DEF_IMG(webp)
DEF_IMG(etc2)
DEF_IMG(thumbhash)
typedef struct {
  const char* name;
  sizeof_fn size;
  init_fn init;
  up_img_fn up;
} img_desc;
#define IMG(pkg) {#pkg, sizeof__wuffs_##pkg##__decoder, initimg_##pkg, upimg_##pkg}
static const img_desc imgs[] = {
    IMG(bmp), IMG(gif), IMG(jpeg), IMG(netpbm), IMG(nie), IMG(png), IMG(qoi), IMG(targa), IMG(wbmp), IMG(webp), IMG(etc2), IMG(thumbhash),
};
#define NUM_IMGS (sizeof(imgs) / sizeof(imgs[0]))

static uint8_t* img_obj = NULL;
static wuffs_base__image_decoder* img = NULL;
static wuffs_base__image_config img_cfg;
static int img_have_cfg = 0;
static wuffs_base__pixel_buffer img_pb;
static uint8_t* img_pix = NULL;
static size_t img_pix_len = 0;
static uint8_t* img_work = NULL;
static size_t img_work_len = 0;

static void do_img_new(void) {
  uint32_t kind = rd32(), fill = rd32(), seed = rd32(), flags = rd32();
  if (kind >= NUM_IMGS) die("unknown image decoder kind");
  free(img_obj); img_obj = NULL; img = NULL;
  free(img_pix); img_pix = NULL; img_pix_len = 0;
  free(img_work); img_work = NULL; img_work_len = 0;
  img_have_cfg = 0;
  memset(&img_cfg, 0, sizeof img_cfg);
  memset(&img_pb, 0, sizeof img_pb);
  size_t size = imgs[kind].size();
  img_obj = (uint8_t*)malloc(size);
  if (!img_obj) die("malloc");
  fill_mem(img_obj, size, fill, seed);
  wuffs_base__status st = imgs[kind].init(img_obj, size, WUFFS_VERSION, flags);
  if (!st.repr) img = imgs[kind].up(img_obj);
  wr8('I' | 0x20);
  wrstr(st.repr ? st.repr : "");
  wr32((uint32_t)size);
}

static void do_img_call(void) {
  uint8_t method = rd8();
  uint32_t src_len = rd32();
  uint8_t* src = (uint8_t*)malloc(src_len ? src_len : 1);
  uint8_t* shadow = (uint8_t*)malloc(src_len ? src_len : 1);
  if (!src || !shadow) die("out of memory (src)");
  rd(src, src_len);
  memcpy(shadow, src, src_len);
  uint32_t src_ri = rd32();
  uint8_t closed = rd8();
  uint64_t pos = rd64();
  uint8_t pixfill = rd8();
  uint64_t r_index = 0, r_iopos = 0;
  if (method == 3) { r_index = rd64(); r_iopos = rd64(); }
  if (!img) die("image call before new");
  if (src_ri > src_len) die("bad src_ri");
  wuffs_base__io_buffer s;
  s.data.ptr = src; s.data.len = src_len;
  s.meta.wi = src_len; s.meta.ri = src_ri; s.meta.pos = pos; s.meta.closed = closed != 0;

  wuffs_base__frame_config fc;
  memset(&fc, 0, sizeof fc);
  uint8_t too_big = 0;
  wuffs_base__status st = wuffs_base__make_status(NULL);
  uint32_t mallocs1 = 0, frees1 = 0;
  if (method == 2) {
    if (!img_pix) {
      uint64_t w = wuffs_base__pixel_config__width(&img_cfg.pixcfg), h = wuffs_base__pixel_config__height(&img_cfg.pixcfg);
      if (!img_have_cfg) {
        // decode_frame without a prior decode_image_config is legal (it is
        // called implicitly); a caller then brings its own pixel buffer, and a
        // smaller one only clips (doc/std/image-decoders-call-sequence.md).
        w = 64; h = 64;
      }
      if (w * h > (1u << 24)) {
        too_big = 1;
      } else {
        wuffs_base__pixel_config__set(&img_cfg.pixcfg, WUFFS_BASE__PIXEL_FORMAT__BGRA_NONPREMUL, WUFFS_BASE__PIXEL_SUBSAMPLING__NONE, (uint32_t)w, (uint32_t)h);
        img_pix_len = (size_t)(w * h * 4);
        img_pix = (uint8_t*)malloc(img_pix_len ? img_pix_len : 1);
        if (!img_pix) die("malloc (pixels)");
        fill_mem(img_pix, img_pix_len, pixfill, 77);
        wuffs_base__status ps = wuffs_base__pixel_buffer__set_from_slice(&img_pb, &img_cfg.pixcfg, wuffs_base__make_slice_u8(img_pix, img_pix_len));
        if (ps.repr) die("pixel_buffer__set_from_slice failed");
      }
    }
    wuffs_base__range_ii_u64 wl = wuffs_base__image_decoder__workbuf_len(img);
    if (wl.max_incl > (1ull << 28)) {
      too_big = 1;
    } else if (wl.max_incl > img_work_len) {
      free(img_work);
      img_work_len = (size_t)wl.max_incl;
      img_work = (uint8_t*)malloc(img_work_len);
      if (!img_work) die("malloc (work)");
      memset(img_work, 0xA7, img_work_len);
    }
  }
  if (!too_big) {
    uint32_t mallocs0 = n_mallocs, frees0 = n_frees;
    switch (method) {
      case 0: st = wuffs_base__image_decoder__decode_image_config(img, &img_cfg, &s); break;
      case 1: st = wuffs_base__image_decoder__decode_frame_config(img, &fc, &s); break;
      case 2: st = wuffs_base__image_decoder__decode_frame(img, &img_pb, &s, WUFFS_BASE__PIXEL_BLEND__SRC,
                      wuffs_base__make_slice_u8(img_work, img_work_len), NULL); break;
      case 3: st = wuffs_base__image_decoder__restart_frame(img, r_index, r_iopos); break;
      case 4: {
        static uint8_t tmm_mem[64];
        wuffs_base__io_buffer tdst = wuffs_base__ptr_u8__writer(tmm_mem, sizeof tmm_mem);
        wuffs_base__more_information minfo;
        memset(&minfo, 0, sizeof minfo);
        st = wuffs_base__image_decoder__tell_me_more(img, &tdst, &minfo, &s);
        break;
      }
      default: die("unknown image method");
    }
    mallocs1 = n_mallocs - mallocs0; frees1 = n_frees - frees0;
  }
  if (method == 0 && !st.repr) img_have_cfg = 1;
  uint8_t src_ok = (s.data.ptr == src) && (s.data.len == src_len) && (s.meta.wi == src_len) &&
                   (s.meta.pos == pos) && ((s.meta.closed != 0) == (closed != 0)) &&
                   (memcmp(shadow, src, src_len) == 0);
  wr8('J' | 0x20);
  wrstr(st.repr ? st.repr : "");
  wr32((uint32_t)s.meta.ri);
  wr8(src_ok);
#if defined(CSIM_ALLOC_HOOKS)
  wr32(mallocs1); wr32(frees1);
#else
  (void)mallocs1; (void)frees1;
  wr32(0xFFFFFFFFu); wr32(0xFFFFFFFFu);
#endif
  if (method == 0) {
    wr32(wuffs_base__pixel_config__width(&img_cfg.pixcfg));
    wr32(wuffs_base__pixel_config__height(&img_cfg.pixcfg));
    wr32(wuffs_base__pixel_config__pixel_format(&img_cfg.pixcfg).repr);
    wr64(wuffs_base__image_config__first_frame_io_position(&img_cfg));
    wuffs_base__range_ii_u64 wl = wuffs_base__image_decoder__workbuf_len(img);
    wr64(wl.min_incl); wr64(wl.max_incl);
  } else if (method == 1) {
    wuffs_base__rect_ie_u32 r = wuffs_base__frame_config__bounds(&fc);
    wr32(r.min_incl_x); wr32(r.min_incl_y); wr32(r.max_excl_x); wr32(r.max_excl_y);
    wr64((uint64_t)wuffs_base__frame_config__duration(&fc));
    wr64(wuffs_base__frame_config__index(&fc));
    wr64(wuffs_base__frame_config__io_position(&fc));
    wr8((uint8_t)wuffs_base__frame_config__disposal(&fc));
  } else if (method == 2) {
    wr8(too_big);
    wuffs_base__rect_ie_u32 r = too_big ? wuffs_base__utility__empty_rect_ie_u32() : wuffs_base__image_decoder__frame_dirty_rect(img);
    wr32(r.min_incl_x); wr32(r.min_incl_y); wr32(r.max_excl_x); wr32(r.max_excl_y);
    uint64_t hsh = 0xcbf29ce484222325ull;
    for (size_t i = 0; i < img_pix_len; i++) { hsh ^= img_pix[i]; hsh *= 0x100000001b3ull; }
    wr64(hsh);
    if (img_pix_len <= 65536 && !too_big) { wr32((uint32_t)img_pix_len); wr(img_pix, img_pix_len); } else { wr32(0); }
  }
  wr64(wuffs_base__image_decoder__num_decoded_frame_configs(img));
  wr64(wuffs_base__image_decoder__num_decoded_frames(img));
  free(src);
  free(shadow);
}

// ------------------------------------------------------------------ hashers
//
// 'H': algo:u8 fill:u8 seed:u32 flags:u32 npieces:u32, then per piece
//      align:u8 len:u32 bytes. The object lives in its own exact-size
//      allocation, pre-filled as asked and then initialized with the given
//      flags. Every piece is copied into its own exact-size allocation at the
//      given misalignment, so that an over-read is an ASan report.
// response: status string of initialize; if ok: npieces + 1 values of 32 bytes
//      (the value returned by each update call, then the final checksum).
static void wr_val64(uint64_t lo) {
  wr64(lo); wr64(0); wr64(0); wr64(0);
}
static void wr_val256(wuffs_base__bitvec256 v) {
  wr64(v.elements_u64[0]); wr64(v.elements_u64[1]); wr64(v.elements_u64[2]); wr64(v.elements_u64[3]);
}

static void do_hash(void) {
  uint8_t algo = rd8();
  uint8_t fill = rd8();
  uint32_t seed = rd32();
  uint32_t flags = rd32();
  uint32_t npieces = rd32();
  size_t size = 0;
  switch (algo) {
    case 0: size = sizeof__wuffs_crc32__ieee_hasher(); break;
    case 1: size = sizeof__wuffs_adler32__hasher(); break;
    case 2: size = sizeof__wuffs_crc64__ecma_hasher(); break;
    case 3: size = sizeof__wuffs_sha256__hasher(); break;
    case 4: size = sizeof__wuffs_xxhash32__hasher(); break;
    case 5: size = sizeof__wuffs_xxhash64__hasher(); break;
    default: die("unknown hash algorithm");
  }
  uint8_t* h = (uint8_t*)malloc(size);
  if (!h) die("malloc");
  fill_mem(h, size, fill, seed);
  wuffs_base__status st;
  switch (algo) {
    case 0: st = wuffs_crc32__ieee_hasher__initialize((wuffs_crc32__ieee_hasher*)h, size, WUFFS_VERSION, flags); break;
    case 1: st = wuffs_adler32__hasher__initialize((wuffs_adler32__hasher*)h, size, WUFFS_VERSION, flags); break;
    case 2: st = wuffs_crc64__ecma_hasher__initialize((wuffs_crc64__ecma_hasher*)h, size, WUFFS_VERSION, flags); break;
    case 3: st = wuffs_sha256__hasher__initialize((wuffs_sha256__hasher*)h, size, WUFFS_VERSION, flags); break;
    case 4: st = wuffs_xxhash32__hasher__initialize((wuffs_xxhash32__hasher*)h, size, WUFFS_VERSION, flags); break;
    default: st = wuffs_xxhash64__hasher__initialize((wuffs_xxhash64__hasher*)h, size, WUFFS_VERSION, flags); break;
  }
  wr8('H' | 0x20);
  wrstr(st.repr ? st.repr : "");
  for (uint32_t i = 0; i < npieces; i++) {
    uint8_t align = rd8();
    uint32_t len = rd32();
    // exact-size allocation: the slice ends where the allocation ends, so
    // that a read beyond the piece is an ASan report
    uint8_t* mem = (uint8_t*)malloc((size_t)align + (size_t)len + (len == 0 ? 1 : 0));
    if (!mem) die("malloc");
    rd(mem + align, len);
    if (st.repr) { free(mem); continue; }
    wuffs_base__slice_u8 x = wuffs_base__make_slice_u8(mem + align, len);
    switch (algo) {
      case 0: wr_val64(wuffs_crc32__ieee_hasher__update_u32((wuffs_crc32__ieee_hasher*)h, x)); break;
      case 1: wr_val64(wuffs_adler32__hasher__update_u32((wuffs_adler32__hasher*)h, x)); break;
      case 2: wr_val64(wuffs_crc64__ecma_hasher__update_u64((wuffs_crc64__ecma_hasher*)h, x)); break;
      case 3: wr_val256(wuffs_sha256__hasher__update_bitvec256((wuffs_sha256__hasher*)h, x)); break;
      case 4: wr_val64(wuffs_xxhash32__hasher__update_u32((wuffs_xxhash32__hasher*)h, x)); break;
      default: wr_val64(wuffs_xxhash64__hasher__update_u64((wuffs_xxhash64__hasher*)h, x)); break;
    }
    free(mem);
  }
  if (!st.repr) {
    switch (algo) {
      case 0: wr_val64(wuffs_crc32__ieee_hasher__checksum_u32((wuffs_crc32__ieee_hasher*)h)); break;
      case 1: wr_val64(wuffs_adler32__hasher__checksum_u32((wuffs_adler32__hasher*)h)); break;
      case 2: wr_val64(wuffs_crc64__ecma_hasher__checksum_u64((wuffs_crc64__ecma_hasher*)h)); break;
      case 3: wr_val256(wuffs_sha256__hasher__checksum_bitvec256((wuffs_sha256__hasher*)h)); break;
      case 4: wr_val64(wuffs_xxhash32__hasher__checksum_u32((wuffs_xxhash32__hasher*)h)); break;
      default: wr_val64(wuffs_xxhash64__hasher__checksum_u64((wuffs_xxhash64__hasher*)h)); break;
    }
  }
  free(h);
}

int main(void) {
  setvbuf(stdout, NULL, _IOFBF, 1 << 16);
#if defined(CSIM_ALLOC_HOOKS)
  __sanitizer_install_malloc_and_free_hooks(on_malloc, on_free);
#endif
  for (;;) {
    uint8_t op = rd8();
    switch (op) {
      case 'N': do_new(); break;
      case 'A': do_alloc_raw(); break;
      case 'C': do_call(); break;
      case 'W': do_query(); break;
      case 'D': do_drain(); break;
      case 'K': do_compact(); break;
      case 'H': do_hash(); break;
      case 'I': do_img_new(); break;
      case 'J': do_img_call(); break;
      case 'P':  // ping: identifies the build
        wr8('P' | 0x20);
        wr32((uint32_t)NUM_XFORMS);
#if defined(WUFFS_CONFIG__AVOID_CPU_ARCH)
        wr8(1);
#else
        wr8(0);
#endif
        break;
      case 'Q': fflush(stdout); return 0;
      default: die("unknown opcode");
    }
    fflush(stdout);
  }
}
