// Engine C ("csim"): the I/O-delivery simulator around the C that `wuffs gen`
// produces from the working tree at check time (C03, C05, C07; C08 and C09 to
// follow). The Go side owns every decision (what stream, how it is split, when
// EOF becomes known, how the destination is granted, drained, compacted and
// relocated, what garbage the object's memory held); the C driver child only
// executes calls and reports facts.
package main

import (
	"fmt"
	"os"

	"verif/sim"
)

func main() {
	defer func() {
		for _, d := range drivers {
			d.stop()
		}
		if os.Getenv("CSIM_COST") != "" {
			for op, ns := range opNanos {
				fmt.Fprintf(os.Stderr, "csim cost: request %q: %d requests, %.1f s total, %.1f us each\n", op, opCount[op], float64(ns)/1e9, float64(ns)/1e3/float64(opCount[op]))
			}
		}
	}()
	sim.WorkerMain(sim.EngineSpec{
		Name: "csim",
		Props: map[string]sim.PropSpec{
			"C03": {Run: runC03, Modes: []string{"any", "any", "images"}},
			"C05": {Run: runC05, Modes: []string{"multi_split", "every_split", "multi_split", "dst_minimum", "multi_split", "images"}},
			"C07": {Run: runC07, Modes: []string{"valid", "valid", "hashers", "images"}},
			"C08": {Run: runC08, Modes: []string{"histories", "histories", "image_histories"}},
			"C09": {Run: runC09, Modes: []string{"variants", "variants", "image_variants"}},
		},
	})
}
