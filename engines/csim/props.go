package main

// Property-level run functions of engine C. Each applies its own oracle; a
// crash of the driver child (a sanitizer report, a signal) is reported by
// whichever property was running, because nothing else can be evaluated.

import (
	"bytes"
	"fmt"
	"os"
	"strings"

	"verif/sim"
)

var drivers = map[string]*driver{}

func getDriver(opt sim.RunOpt, variant string) *driver {
	if d := drivers[variant]; d != nil && !d.dead {
		return d
	}
	path := opt.Extra["drv_"+variant]
	if path == "" {
		fmt.Fprintln(os.Stderr, "csim: no driver binary for variant", variant)
		os.Exit(2)
	}
	d, err := startDriver(variant, path, opt.Extra["scratch"])
	if err != nil {
		fmt.Fprintln(os.Stderr, "csim: cannot start driver:", err)
		os.Exit(2)
	}
	drivers[variant] = d
	return d
}

// guard runs f and converts a driver crash into a violation.
func guard(o *sim.Outcome, what func() string, f func()) {
	defer func() {
		if r := recover(); r != nil {
			c, ok := r.(crashed)
			if !ok {
				panic(r)
			}
			if strings.Contains(c.stderr, "csim driver:") {
				// The driver aborted by its own hand (a request it considers
				// malformed): a defect of this harness, never a verdict.
				fmt.Fprintf(os.Stderr, "csim: harness trouble (no verdict): the driver refused a request while running %s\n%s\n", what(), c.stderr)
				os.Exit(2)
			}
			class, key := "crash", "crash"
			switch {
			case strings.Contains(c.stderr, "AddressSanitizer"):
				class = "sanitizer_asan"
				key = "asan:" + firstFrame(c.stderr)
			case strings.Contains(c.stderr, "runtime error:"):
				class = "sanitizer_ubsan"
				key = "ubsan:" + ubsanKind(c.stderr)
			}
			o.Fail(class, key, "the %s build of the generated C died while running %s\n%s", c.variant, what(), c.stderr)
		}
	}()
	f()
}

func firstFrame(s string) string {
	for _, l := range strings.Split(s, "\n") {
		l = strings.TrimSpace(l)
		if strings.HasPrefix(l, "#0 ") || strings.HasPrefix(l, "#1 ") {
			f := strings.Fields(l)
			for i, w := range f {
				if w == "in" && i+1 < len(f) {
					return f[i+1]
				}
			}
		}
	}
	return "unknown"
}

func ubsanKind(s string) string {
	if i := strings.Index(s, "runtime error:"); i >= 0 {
		l := s[i+len("runtime error:"):]
		if j := strings.IndexByte(l, '\n'); j >= 0 {
			l = l[:j]
		}
		f := strings.Fields(l)
		if len(f) > 3 {
			f = f[:3]
		}
		return strings.Join(f, "_")
	}
	return "unknown"
}

func outHint(st *stream) int {
	if st.payload != nil {
		return len(st.payload) + 1024
	}
	h := 64*len(st.data) + 1<<16
	if h > 8<<20 {
		h = 8 << 20
	}
	return h
}

func drawSetup(t *sim.Tape) objSetup {
	s := objSetup{fill: t.Pick(1, 1, 2), seed: uint32(t.Draw(1 << 20)), dstFill: t.Draw(3), fresh: true}
	return s
}

func describe(st *stream, sch *schedule) string {
	return fmt.Sprintf("%s decoder; stream: %s (%d bytes); %s", xformNames[st.kind], st.desc, len(st.data), sch)
}

func addRunProbes(o *sim.Outcome, r *runResult) {
	o.Steps += int64(r.calls)
	o.ProbeN("calls", int64(r.calls))
	o.ProbeN("suspended_mid_stream", int64(r.midReads))
	o.ProbeN("spurious_empty_delivery", int64(r.spuriousHit))
	o.ProbeN("src_compacted", int64(r.compactions))
	o.ProbeN("src_kept_consumed_prefix", int64(r.keptPrefix))
	o.ProbeN("dst_relocated", int64(r.relocations))
	o.ProbeN("workbuf_requeried", int64(r.workGrew))
	o.ProbeN("dst_window_stalls", int64(r.stalls))
	o.ProbeN("calls_with_allocator_monitored", int64(r.allocChecked))
	if r.mixedHistory {
		o.Probe("call_started_with_leftover_dst_history")
	}
	if r.giveUp != "" {
		o.Probe("harness_gave_up: " + r.giveUp)
	}
	if isError(r.final) {
		o.Probe("final_error")
	} else if r.complete {
		o.Probe("final_ok_or_note")
	}
}

// perCallViolations reports the buffer-contract and status facts every run
// collects (C03 owns them; other properties only use them to stop early).
func perCallViolations(o *sim.Outcome, r *runResult, where string) bool {
	switch {
	case len(r.allocated) > 0:
		o.Fail("decoder_allocates", "decoder_allocates", "generated code must never allocate or free: %s; %s", r.allocated[0], where)
	case len(r.badIndexes) > 0:
		o.Fail("io_buffer_contract", "", "%s; %s", r.badIndexes[0], where)
	case len(r.badStatus) > 0:
		key := "bad_status"
		if strings.Contains(r.badStatus[0], "internal error") {
			key = "internal_error_status"
		}
		o.Fail("bad_status", key, "%s; %s", r.badStatus[0], where)
	case len(r.unjustified) > 0:
		o.Fail("unjustified_suspension", "unjustified:"+suspName(r.unjustified[0]), "%s; %s", r.unjustified[0], where)
	default:
		return false
	}
	return true
}

func suspName(s string) string {
	for _, n := range []string{"short read", "short write", "short workbuf"} {
		if strings.Contains(s, n) {
			return strings.ReplaceAll(n, " ", "_")
		}
	}
	return "other"
}

// ---- C03: memory safety and well-behaved statuses on any input ----

func runC03(t *sim.Tape, opt sim.RunOpt) *sim.Outcome {
	if opt.Mode == "images" {
		return runC03Images(t, opt)
	}
	o := &sim.Outcome{}
	st, err := drawStream(t, opt.Extra["repo"], 20000, true)
	if err != nil {
		fmt.Fprintln(os.Stderr, "csim: corpus:", err)
		os.Exit(2)
	}
	if t.Chance(4, 5) {
		damage(t, st, o)
	}
	sch := drawSchedule(t, len(st.data), outHint(st))
	sch.dstCap = outHint(st)
	setup := drawSetup(t)
	where := describe(st, sch)
	o.Sample = where
	var r *runResult
	guard(o, func() string { return where }, func() {
		r = runStream(getDriver(opt, "asan"), st, sch, setup, opt.Verbose)
	})
	fp := sim.NewFP()
	fp.AddStr(where)
	fp.Add(sim.Hash64(st.data))
	o.FP = fp.Sum()
	if r == nil {
		o.Nontrivial = true
		return o
	}
	o.Trace = append(o.Trace, r.trace...)
	addRunProbes(o, r)
	o.Nontrivial = r.calls >= 2
	perCallViolations(o, r, where)
	return o
}

// runKey identifies the failing history family for known_findings.json: the
// violated oracle, the decoder, and whether some call of the run started with
// earlier output still in front of the destination's write index after part of
// the output had already been discarded (see runResult.mixedHistory).
func runKey(class string, st *stream, r *runResult) string {
	k := class + ":" + xformNames[st.kind]
	if st.tag != "" {
		k += ":" + st.tag
	}
	if r != nil && r.mixedHistory {
		k += ":leftover_dst_history"
	}
	return k
}

// ---- C05: results do not depend on where the streams are split ----

func compareRuns(o *sim.Outcome, st *stream, ref, got *runResult, where string) {
	if !ref.complete || !got.complete {
		o.Probe("comparison_skipped_incomplete_run")
		return
	}
	if ref.final != got.final {
		o.Fail("split_changes_status", runKey("split_changes_status", st, got), "final status %q when delivered in pieces, %q with everything available; %s", got.final, ref.final, where)
		return
	}
	if !bytes.Equal(ref.out, got.out) {
		i := 0
		for i < len(ref.out) && i < len(got.out) && ref.out[i] == got.out[i] {
			i++
		}
		o.Fail("split_changes_output", runKey("split_changes_output", st, got), "output differs at byte %d (lengths %d in pieces, %d at once); final status %q; %s", i, len(got.out), len(ref.out), got.final, where)
		return
	}
	if !isError(ref.final) && ref.consumed != got.consumed {
		o.Fail("split_changes_consumed", runKey("split_changes_consumed", st, got), "consumed %d source bytes when delivered in pieces, %d at once (final status %q); %s", got.consumed, ref.consumed, got.final, where)
	}
}

// runDstMinimum measures the smallest fixed destination window with which a
// decoder still completes (all source available, window drained and compacted
// after every "$short write"). The property lets the destination be drained in
// pieces down to one byte, so any minimum above 1 is reported.
func runDstMinimum(t *sim.Tape, opt sim.RunOpt, o *sim.Outcome) *sim.Outcome {
	st, err := drawStream(t, opt.Extra["repo"], 3000, false)
	if err != nil {
		fmt.Fprintln(os.Stderr, "csim: corpus:", err)
		os.Exit(2)
	}
	setup := drawSetup(t)
	hint := outHint(st)
	d := func() *driver { return getDriver(opt, "asan") }
	fp := sim.NewFP()
	fp.AddStr("dst_minimum " + st.desc)
	fp.Add(sim.Hash64(st.data))
	o.FP = fp.Sum()
	o.Sample = "minimum destination window of: " + xformNames[st.kind] + " decoder; " + st.desc
	o.Nontrivial = len(st.payload) > 1
	var ref *runResult
	refSch := referenceSchedule(hint)
	guard(o, func() string { return describe(st, refSch) }, func() { ref = runStream(d(), st, refSch, setup, false) })
	if ref == nil || !ref.complete || len(ref.out) < 2 {
		return o
	}
	stalled := 0
	for _, w := range []int{1, 2, 3, 4, 8, 16, 64, 128, 256, 273, 274, 275, 512, 1024, 4096, 65536} {
		sch := &schedule{splitAt: -1, fixedWindow: w, dstCap: hint, drainAll: true, maxCalls: 400000}
		where := describe(st, sch)
		var got *runResult
		guard(o, func() string { return where }, func() { got = runStream(d(), st, sch, setup, opt.Verbose && w <= 2) })
		if got == nil {
			return o
		}
		o.Steps += int64(got.calls)
		o.ProbeN("windows_tried", 1)
		if got.stalls > 0 && !got.complete {
			stalled = w
			if opt.Verbose {
				o.Tracef("window %d: %s", w, got.giveUp)
			}
			continue
		}
		compareRuns(o, st, ref, got, where)
		if o.Class == "" && stalled > 0 {
			o.Fail("dst_window_minimum", "dst_window_minimum:"+xformNames[st.kind],
				"the %s decoder makes no progress with a destination window of %d bytes or less (\"$base: short write\" with nothing written or consumed, however often the window is emptied) and completes with %d; the property lets the destination be drained in pieces down to 1 byte; stream: %s",
				xformNames[st.kind], stalled, w, st.desc)
		}
		o.Probe("min_window_" + xformNames[st.kind] + fmt.Sprintf("_%d", w))
		return o
	}
	o.Fail("dst_window_minimum", "dst_window_minimum:"+xformNames[st.kind]+":none", "no destination window up to 65536 bytes lets the %s decoder make progress; stream: %s", xformNames[st.kind], st.desc)
	return o
}

func runC05(t *sim.Tape, opt sim.RunOpt) *sim.Outcome {
	if opt.Mode == "images" {
		return runC05Images(t, opt)
	}
	o := &sim.Outcome{}
	if opt.Mode == "dst_minimum" {
		return runDstMinimum(t, opt, o)
	}
	maxLen := 12000
	if opt.Mode == "every_split" {
		maxLen = 1500
	}
	st, err := drawStream(t, opt.Extra["repo"], maxLen, opt.Mode != "every_split")
	if err != nil {
		fmt.Fprintln(os.Stderr, "csim: corpus:", err)
		os.Exit(2)
	}
	if t.Chance(1, 3) {
		damage(t, st, o)
	}
	setup := drawSetup(t)
	hint := outHint(st)
	d := func() *driver { return getDriver(opt, "asan") }
	var ref *runResult
	refSch := referenceSchedule(hint)
	guard(o, func() string { return describe(st, refSch) }, func() {
		ref = runStream(d(), st, refSch, setup, false)
	})
	fp := sim.NewFP()
	fp.AddStr(st.desc)
	fp.Add(sim.Hash64(st.data))
	if ref == nil {
		o.FP = fp.Sum()
		o.Nontrivial = true
		return o
	}
	addRunProbes(o, ref)
	if opt.Mode == "every_split" && len(st.data) <= 2048 {
		// Every single split point of this stream (exhaustive over that axis).
		o.Probe("every_split_streams")
		for k := 0; k <= len(st.data); k++ {
			sch := &schedule{splitAt: k, dstCap: hint, drainAll: true, maxCalls: 100000}
			where := describe(st, sch)
			var got *runResult
			guard(o, func() string { return where }, func() {
				got = runStream(d(), st, sch, setup, opt.Verbose && k == len(st.data)/2)
			})
			if got == nil {
				break
			}
			o.Steps += int64(got.calls)
			o.ProbeN("split_points_checked", 1)
			o.ProbeN("suspended_mid_stream", int64(got.midReads))
			if opt.Verbose && k == len(st.data)/2 {
				o.Trace = append(o.Trace, got.trace...)
			}
			compareRuns(o, st, ref, got, where)
			if o.Class != "" {
				break
			}
		}
		fp.AddStr("every_split")
		o.FP = fp.Sum()
		o.Sample = fmt.Sprintf("every split point 0..%d of: %s decoder; %s", len(st.data), xformNames[st.kind], st.desc)
		o.Nontrivial = len(st.data) >= 2
		return o
	}
	sch := drawSchedule(t, len(st.data), hint)
	sch.dstCap = hint
	where := describe(st, sch)
	o.Sample = where
	var got *runResult
	guard(o, func() string { return where }, func() {
		got = runStream(d(), st, sch, setup, opt.Verbose)
	})
	fp.AddStr(sch.String())
	o.FP = fp.Sum()
	if got == nil {
		o.Nontrivial = true
		return o
	}
	o.Trace = append(o.Trace, got.trace...)
	addRunProbes(o, got)
	o.Nontrivial = got.calls >= 2
	compareRuns(o, st, ref, got, where)
	return o
}

// ---- C07: agreement with independent encoders on valid data ----

func runC07(t *sim.Tape, opt sim.RunOpt) *sim.Outcome {
	if opt.Mode == "hashers" {
		return runC07Hashers(t, opt)
	}
	if opt.Mode == "images" {
		return runC07Images(t, opt)
	}
	o := &sim.Outcome{}
	st, err := drawStream(t, opt.Extra["repo"], 60000, false)
	if err != nil {
		fmt.Fprintln(os.Stderr, "csim: corpus:", err)
		os.Exit(2)
	}
	setup := drawSetup(t)
	hint := outHint(st)
	var sch *schedule
	if t.Chance(1, 4) {
		sch = referenceSchedule(hint)
	} else {
		sch = drawSchedule(t, len(st.data), hint)
		sch.dstCap = hint
	}
	where := describe(st, sch)
	o.Sample = where
	variant := "asan"
	if t.Chance(1, 3) {
		variant = "plain"
	}
	var r *runResult
	guard(o, func() string { return where }, func() {
		r = runStream(getDriver(opt, variant), st, sch, setup, opt.Verbose)
	})
	fp := sim.NewFP()
	fp.AddStr(where)
	o.FP = fp.Sum()
	if r == nil {
		o.Nontrivial = true
		return o
	}
	o.Trace = append(o.Trace, r.trace...)
	addRunProbes(o, r)
	o.Probe("decoder_" + xformNames[st.kind])
	o.Nontrivial = len(st.payload) > 0
	if !r.complete {
		return o
	}
	if isError(r.final) && strings.Contains(r.final, "unsupported") {
		// The decoder honestly declines a legal but exotic encoding (e.g.
		// "#xz: unsupported filter combination" for two BCJ filters in a row).
		// The property's encoder settings do not include it: not a violation.
		o.Probe("decoder_declined_as_unsupported")
		o.Probe("declined: " + r.final)
		return o
	}
	if r.final != "" {
		o.Fail("valid_stream_rejected", runKey("valid_stream_rejected", st, r), "a stream written by the reference encoder ended with status %q after %d output bytes (payload %d bytes); %s", r.final, len(r.out), len(st.payload), where)
		return o
	}
	if !bytes.Equal(r.out, st.payload) {
		i := 0
		for i < len(r.out) && i < len(st.payload) && r.out[i] == st.payload[i] {
			i++
		}
		o.Fail("decoded_bytes_differ", runKey("decoded_bytes_differ", st, r), "decoded output differs from the original payload at byte %d (lengths %d vs %d); %s", i, len(r.out), len(st.payload), where)
		return o
	}
	if r.consumed != len(st.data) {
		o.Probe("trailing_bytes_not_consumed")
	}
	return o
}
