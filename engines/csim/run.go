package main

// The delivery simulator: a producer that owns the whole (possibly damaged)
// stream and releases it in pieces, the decoder object, and a consumer that
// drains the destination. The loop reacts to each suspension exactly as the
// repository's own callers do (example/zcat, example/mzcat): $short read ->
// supply more input (compacting the source or not); $short write -> drain,
// compact_retaining(dst_history_retain_length or everything), grant more;
// $short workbuf -> re-query workbuf_len and supply at least min_incl.
//
// Every per-call fact needed by the oracles is kept in the result; the oracles
// themselves are in props.go.

import (
	"fmt"
	"os"

	"verif/sim"
)

const (
	maxWork    = 1 << 26 // harness limit on the work buffer it is willing to allocate
	ampleSpace = 1 << 16
)

// schedule decides how the stream is delivered and the destination granted.
// The zero value is the reference: everything available at once.
type schedule struct {
	tape *sim.Tape // nil = reference run (no draws)

	srcPolicy int // 0 all at once, 1 fixed chunk, 2 drawn sizes, 3 one byte
	srcChunk  int
	lateEOF   bool // closed is announced in a separate, later, empty delivery
	spurious  int  // how many empty deliveries (wake-ups without new input) may happen
	keepSrc   int  // 0 always compact the source, 1 keep consumed bytes in front (bounded), 2 drawn per call
	splitAt   int  // >=0: deliver exactly [0,splitAt) first, then the rest (single split point mode)

	dstCap    int
	dstPolicy int // 0 ample, 1 fixed grant, 2 drawn grants, 3 one byte
	dstGrant  int
	drainAll  bool // consumer drains everything after each call (else a drawn part)
	// dstAlwaysEmpty: the consumer takes everything and the destination is
	// compacted before EVERY call, so that each call starts with an empty
	// destination (otherwise that happens only after "$short write", as in
	// example/zcat, and output of earlier calls may still sit in front of wi).
	dstAlwaysEmpty bool
	// fixedWindow > 0: the destination never offers more than this many bytes
	// and the loop does NOT grow it after a stall (minimum-window measurement).
	fixedWindow int
	relocate    bool // relocate the destination when compacting
	workAtMin   bool // supply workbuf_len().min_incl instead of max_incl
	maxCalls    int
}

func (s *schedule) String() string {
	if s.tape == nil && s.splitAt < 0 && s.fixedWindow == 0 {
		return "reference(all at once, ample dst)"
	}
	return fmt.Sprintf("sched{src=%d/%d lateEOF=%v spurious=%d keepSrc=%d splitAt=%d dstCap=%d dst=%d/%d drainAll=%v dstAlwaysEmpty=%v fixedWindow=%d relocate=%v workAtMin=%v}",
		s.srcPolicy, s.srcChunk, s.lateEOF, s.spurious, s.keepSrc, s.splitAt, s.dstCap, s.dstPolicy, s.dstGrant, s.drainAll, s.dstAlwaysEmpty, s.fixedWindow, s.relocate, s.workAtMin)
}

func referenceSchedule(outHint int) *schedule {
	return &schedule{splitAt: -1, dstCap: outHint, drainAll: true, maxCalls: 100000}
}

// drawSchedule draws a delivery schedule. outHint is an estimate of the output
// size, used only to keep the number of calls bounded (harness economics).
func drawSchedule(t *sim.Tape, streamLen, outHint int) *schedule {
	s := &schedule{tape: t, splitAt: -1, maxCalls: 8000}
	s.srcPolicy = t.Pick(2, 3, 3, 2)
	s.srcChunk = 1 + t.Size(4096)
	if s.srcPolicy == 3 && streamLen > 3000 {
		s.srcPolicy = 1
	}
	if min := 1 + streamLen/2000; s.srcChunk < min {
		s.srcChunk = min
	}
	s.lateEOF = t.Chance(1, 3)
	s.spurious = t.Pick(3, 1, 1) * 2
	s.keepSrc = t.Pick(3, 1, 2)
	s.dstPolicy = t.Pick(3, 3, 3, 1)
	s.dstGrant = 1 + t.Size(8192)
	minGrant := 1 + outHint/1500
	if s.dstPolicy == 3 && minGrant > 1 {
		s.dstPolicy = 1
	}
	if s.dstGrant < minGrant {
		s.dstGrant = minGrant
	}
	s.drainAll = t.Chance(2, 3)
	s.dstAlwaysEmpty = t.Bool()
	s.relocate = t.Chance(1, 3)
	s.workAtMin = t.Bool()
	return s
}

type runResult struct {
	initStatus string
	out        []byte
	final      string
	consumed   int
	calls      int
	complete   bool   // reached a final status (ok, note or error)
	giveUp     string // why the harness stopped early (never a verdict)
	// facts for the per-call oracles (C03 / C08)
	unjustified []string
	badIndexes  []string
	// allocated: decoder calls during which the allocator was used (C03);
	// allocChecked: calls for which the build could tell
	allocated    []string
	allocChecked int
	badStatus    []string
	midReads     int // probe: suspensions that landed inside the stream (not at its end)
	spuriousHit  int
	compactions  int
	relocations  int
	keptPrefix   int
	workGrew     int
	// stalls: "$short write" calls that wrote and consumed nothing into a
	// completely empty destination window smaller than ampleSpace. The loop
	// then offers more room, as any caller must. stalledWindow is the largest
	// window that stalled.
	stalls        int
	stalledWindow int
	// mixedHistory: some call started with earlier output still in front of
	// the destination's write index although an earlier compaction had already
	// discarded part of the output (so the decoder sees only a suffix of its
	// own output there).
	mixedHistory bool
	discarded    bool
	// rec fingerprints the whole observation record of the run: per call the
	// status, the bytes consumed and the bytes written (C09 compares it
	// across memory/flag/CPU-path variants).
	rec   sim.FP
	trace []string
}

// traceCap bounds the per-run call trace; CSIM_TRACE_ALL=1 lifts it (used to
// export a failing run's exact call script to a harness-independent program).
var traceCap = func() int {
	if os.Getenv("CSIM_TRACE_ALL") != "" {
		return 1 << 30
	}
	return 300
}()

func (r *runResult) tracef(verbose bool, format string, a ...interface{}) {
	if verbose && len(r.trace) < traceCap {
		r.trace = append(r.trace, fmt.Sprintf(format, a...))
	}
}

type objSetup struct {
	fill    int
	seed    uint32
	flags   uint32
	dstFill int
	fresh   bool
}

// runStream decodes one stream under one schedule.
func runStream(d *driver, st *stream, sch *schedule, setup objSetup, verbose bool) *runResult {
	r := &runResult{rec: sim.NewFP()}
	data := st.data
	dstCap := sch.dstCap
	if dstCap < ampleSpace {
		dstCap = ampleSpace
	}
	r.initStatus, _ = d.newObject(newArgs{kind: st.kind, fill: setup.fill, seed: setup.seed, flags: setup.flags,
		dstCap: dstCap, dstFill: setup.dstFill, fresh: setup.fresh})
	if r.initStatus != "" {
		r.giveUp = "initialize failed: " + r.initStatus
		return r
	}
	wmin, wmax, histHas, hist := d.query()
	pickWork := func(min, max uint64) (int, bool) {
		w := max
		if sch.workAtMin {
			w = min
		}
		if w > maxWork {
			if min > maxWork {
				return 0, false
			}
			w = min
		}
		return int(w), true
	}
	work, ok := pickWork(wmin, wmax)
	if !ok {
		r.giveUp = "work buffer larger than the harness allocates"
		return r
	}

	delivered, closed := 0, false
	bufStart := 0
	dstWi, dstRi := 0, 0
	needInput, needSpace := true, true
	firstSplitDone := false
	spuriousLeft := sch.spurious
	t := sch.tape
	growTo := 0

	for r.calls < sch.maxCalls {
		// ---- producer ----
		if needInput {
			n := len(data) - delivered
			switch {
			case sch.splitAt >= 0:
				if !firstSplitDone {
					n = sch.splitAt
					firstSplitDone = true
				}
			case t == nil || sch.srcPolicy == 0:
			case sch.srcPolicy == 1:
				if n > sch.srcChunk {
					n = sch.srcChunk
				}
			case sch.srcPolicy == 2:
				if k := t.Size(sch.srcChunk); k < n {
					n = k
				}
			case sch.srcPolicy == 3:
				if n > 1 {
					n = 1
				}
			}
			if t != nil && spuriousLeft > 0 && delivered > 0 && n > 0 && t.Chance(1, 4) {
				spuriousLeft--
				n = 0 // a wake-up that brought nothing
				r.spuriousHit++
			}
			delivered += n
			if delivered == len(data) {
				if !sch.lateEOF || n == 0 {
					closed = true
				}
				// with lateEOF the closed flag arrives with the NEXT (empty) delivery
			}
			needInput = false
		}
		// ---- source buffer layout ----
		keep := sch.keepSrc == 1 || (sch.keepSrc == 2 && t != nil && t.Bool())
		if !keep || r.consumed-bufStart > 4096 {
			if bufStart != r.consumed {
				r.compactions++
			}
			bufStart = r.consumed
		}
		if r.consumed-bufStart > 0 {
			r.keptPrefix++
		}
		// ---- destination ----
		if sch.dstAlwaysEmpty && dstWi > 0 {
			needSpace = true
		}
		// The consumer's actions are sent with the call (one round trip); their
		// effect is deterministic, so it is computed here as well and the
		// driver's report is compared with it after the call.
		preDrain, preCompact, preRetain, wantMoved := -1, false, 0, 0
		if needSpace {
			k := dstWi - dstRi
			if t != nil && !sch.drainAll && !sch.dstAlwaysEmpty && k > 1 && r.calls > 0 {
				k = 1 + t.Draw(k)
			}
			preDrain = k
			dstRi += k
			retain := uint64(1) << 30 // "everything", as mzcat does when there is no value
			if histHas && hist < retain {
				retain = hist
			}
			if dstRi > 0 {
				if retain > uint64(dstWi) {
					retain = uint64(dstWi)
				}
				preCompact, preRetain = true, int(retain)
				from := dstRi
				if dstWi-preRetain < from {
					from = dstWi - preRetain
				}
				wantMoved = from
				dstWi -= from
				dstRi -= from
				if from > 0 {
					r.discarded = true
				}
				if sch.relocate && t != nil {
					r.relocations++
				}
			}
			needSpace = false
		}
		space := dstCap - dstWi
		switch {
		case t == nil || sch.dstPolicy == 0:
		case sch.dstPolicy == 1:
			if space > sch.dstGrant {
				space = sch.dstGrant
			}
		case sch.dstPolicy == 2:
			if g := 1 + t.Size(sch.dstGrant); g < space {
				space = g
			}
		case sch.dstPolicy == 3:
			if space > 1 {
				space = 1
			}
		}
		if sch.fixedWindow > 0 {
			if space > sch.fixedWindow {
				space = sch.fixedWindow
			}
		} else if growTo > 0 {
			// After a stall a caller has to offer more room than last time.
			if g := dstCap - dstWi; growTo > g {
				growTo = g
			}
			if space < growTo {
				space = growTo
			}
		}
		if space == 0 {
			r.giveUp = "destination full and cannot be compacted (history must be retained)"
			return r
		}
		if dstWi > 0 && r.discarded {
			r.mixedHistory = true
		}

		src := data[bufStart:delivered]
		ri0 := r.consumed - bufStart
		wasEmptyDst := dstWi == 0 && dstRi == 0
		obs := d.call(callArgs{src: src, srcRi: ri0, closed: closed, pos: uint64(bufStart), dstSpace: space, workLen: work,
			preDrain: preDrain, preCompact: preCompact, retain: preRetain, relocate: preCompact && sch.relocate && t != nil})
		r.calls++
		if (preDrain >= 0 && obs.drained != preDrain) || (preCompact && obs.moved != wantMoved) {
			fmt.Fprintf(os.Stderr, "csim: harness inconsistency: drain %d/%d compaction %d/%d\n", obs.drained, preDrain, obs.moved, wantMoved)
			os.Exit(2)
		}
		r.tracef(verbose, "call %d: src[%d:%d) ri=%d closed=%v dst wi=%d space=%d work=%d -> %q consumed+%d wrote %d",
			r.calls, bufStart, delivered, ri0, closed, dstWi, space, work, obs.status, obs.srcRi-ri0, len(obs.out))

		if obs.mallocs > 0 || obs.frees > 0 {
			r.allocated = append(r.allocated, fmt.Sprintf("call %d: %d malloc and %d free calls happened inside transform_io", r.calls, obs.mallocs, obs.frees))
		}
		if obs.mallocs >= 0 {
			r.allocChecked++
		}
		// ---- facts for the buffer-contract oracles ----
		if !obs.srcOK {
			r.badIndexes = append(r.badIndexes, fmt.Sprintf("call %d: the source buffer's bytes or its wi/pos/closed/ptr/len were modified", r.calls))
		}
		if !obs.dstPrefixOK {
			r.badIndexes = append(r.badIndexes, fmt.Sprintf("call %d: destination bytes below the pre-call write index %d were modified", r.calls, obs.dstWiBefore))
		}
		if obs.srcRi < ri0 || obs.srcRi > len(src) {
			r.badIndexes = append(r.badIndexes, fmt.Sprintf("call %d: source ri moved from %d to %d (wi=%d)", r.calls, ri0, obs.srcRi, len(src)))
			r.giveUp = "source index out of range"
			return r
		}
		if obs.dstWiAfter < obs.dstWiBefore || obs.dstWiAfter > obs.dstLen || obs.dstRi > obs.dstWiAfter || obs.dstWiBefore != dstWi {
			r.badIndexes = append(r.badIndexes, fmt.Sprintf("call %d: destination wi %d -> %d, ri=%d, len=%d", r.calls, obs.dstWiBefore, obs.dstWiAfter, obs.dstRi, obs.dstLen))
			r.giveUp = "destination index out of range"
			return r
		}
		if obs.dstRi != dstRi || obs.dstClosed {
			r.badIndexes = append(r.badIndexes, fmt.Sprintf("call %d: destination ri/closed changed by the callee (ri %d -> %d, closed=%v)", r.calls, dstRi, obs.dstRi, obs.dstClosed))
		}
		s := obs.status
		if s != "" && !isNote(s) && !isSuspension(s) && !isError(s) {
			r.badStatus = append(r.badStatus, fmt.Sprintf("call %d: status %q is not ok, a note, a suspension or an error", r.calls, s))
		}
		if containsInternalError(s) {
			r.badStatus = append(r.badStatus, fmt.Sprintf("call %d: status %q", r.calls, s))
		}

		r.rec.AddStr(obs.status)
		r.rec.Add(uint64(obs.srcRi - ri0))
		r.rec.Add(sim.Hash64(obs.out))
		r.consumed = bufStart + obs.srcRi
		r.out = append(r.out, obs.out...)
		dstWi = obs.dstWiAfter
		wmin, wmax, histHas, hist = obs.workMin, obs.workMax, obs.histHas, obs.hist

		switch {
		case s == suspShortRead:
			if closed && delivered == len(data) {
				r.unjustified = append(r.unjustified, fmt.Sprintf("call %d: %q although the source was closed and held every remaining byte (%d unread)", r.calls, s, len(data)-r.consumed))
				r.final, r.complete = s, true
				return r
			}
			if delivered < len(data) {
				r.midReads++
			}
			needInput = true
		case s == suspShortWrite:
			if wasEmptyDst && space >= ampleSpace && len(obs.out) == 0 {
				r.unjustified = append(r.unjustified, fmt.Sprintf("call %d: %q with nothing written into an empty destination of %d bytes", r.calls, s, space))
				r.final, r.complete = s, true
				return r
			}
			if wasEmptyDst && len(obs.out) == 0 && obs.srcRi == ri0 {
				// No progress at all with this window.
				r.stalls++
				if space > r.stalledWindow {
					r.stalledWindow = space
				}
				if sch.fixedWindow > 0 {
					r.giveUp = fmt.Sprintf("no progress with a %d-byte destination window", space)
					return r
				}
				growTo = 2 * space
				if growTo < 16 {
					growTo = 16
				}
			} else {
				growTo = 0
			}
			needSpace = true
		case s == suspShortWorkbuf:
			if uint64(work) >= wmin {
				r.unjustified = append(r.unjustified, fmt.Sprintf("call %d: %q although the work buffer (%d) is not shorter than workbuf_len().min_incl (%d)", r.calls, s, work, wmin))
				r.final, r.complete = s, true
				return r
			}
			nw, ok := pickWork(wmin, wmax)
			if !ok {
				r.giveUp = "work buffer larger than the harness allocates"
				return r
			}
			if nw < work {
				nw = work
			}
			work = nw
			r.workGrew++
		case isSuspension(s):
			// Another suspension (metadata-related ones belong to image
			// decoders): the transformer loop does not know how to react.
			r.giveUp = "unexpected suspension " + s
			return r
		default:
			r.final, r.complete = s, true
			return r
		}
	}
	r.giveUp = "call budget exhausted (the schedule is too fine for this stream)"
	return r
}

func containsInternalError(s string) bool {
	for i := 0; i+14 <= len(s); i++ {
		if s[i:i+14] == "internal error" {
			return true
		}
	}
	return false
}
