package main

import (
	"bytes"
	"os/exec"
	"testing"
)

func TestXzFilterTag(t *testing.T) {
	for _, c := range []struct {
		args []string
		want string
	}{
		{[]string{"-c", "-1"}, ""},
		{[]string{"-c", "--x86", "--lzma2=preset=0"}, "xzchain_bcj"},
		{[]string{"-c", "--delta=dist=3", "--lzma2=preset=0"}, "xzchain_delta"},
		{[]string{"-c", "--delta=dist=9", "--arm64", "--lzma2=preset=0"}, "xzchain_delta+bcj"},
	} {
		cmd := exec.Command("xz", c.args...)
		cmd.Stdin = bytes.NewReader([]byte("hello hello hello hello"))
		out, err := cmd.Output()
		if err != nil {
			t.Fatal(err)
		}
		if got := xzFilterTag(out); got != c.want {
			t.Errorf("%v: tag %q, want %q", c.args, got, c.want)
		}
	}
}
