package main

// Image decoders (bmp, gif, jpeg, netpbm, nie, png, qoi, targa, wbmp, webp,
// etc2, thumbhash) through the generic wuffs_base__image_decoder interface:
// decode_image_config, then decode_frame_config / decode_frame per frame. All
// three are coroutines over a source buffer only; the output is a pixel
// buffer. The simulated caller decides how the file arrives (all at once, fixed
// or drawn pieces down to one byte, one split point, a late close, empty
// wake-ups, whether consumed bytes are compacted away), over which prior
// memory the object and the pixels are created, and on which build.

import (
	"bytes"
	"fmt"
	"image"
	"image/color"
	"image/gif"
	"image/png"
	"os"
	"path/filepath"
	"sort"
	"strings"

	"verif/sim"
)

var imgNames = []string{"bmp", "gif", "jpeg", "netpbm", "nie", "png", "qoi", "targa", "wbmp", "webp", "etc2", "thumbhash"}

var imgExt = map[string]int{".bmp": 0, ".gif": 1, ".jpeg": 2, ".jpg": 2, ".pgm": 3, ".ppm": 3, ".pbm": 3, ".nie": 4, ".png": 5, ".qoi": 6, ".tga": 7, ".wbmp": 8, ".webp": 9, ".pkm": 10, ".th": 11}

type imgObs struct {
	status         string
	srcRi          int
	srcOK          bool
	mallocs, frees int
	// method 0
	w, h             int
	pixfmt           uint32
	firstFramePos    uint64
	workMin, workMax uint64
	// method 1
	rect            [4]uint32
	duration, index uint64
	ioPos           uint64
	disposal        int
	// method 2
	tooBig bool
	dirty  [4]uint32
	hash   uint64
	pixels []byte
	// always
	nFrameConfigs, nFrames uint64
}

func (d *driver) imgNew(kind, fill int, seed, flags uint32) (string, int) {
	d.w8('I')
	d.w32(uint32(kind))
	d.w32(uint32(fill))
	d.w32(seed)
	d.w32(flags)
	d.flush('I')
	st := d.rstatus()
	return st, int(d.r32())
}

func (d *driver) imgCall(method int, src []byte, ri int, closed bool, pos uint64, pixfill int) imgObs {
	return d.imgCallRestart(method, src, ri, closed, pos, pixfill, 0, 0)
}

// imgCallRestart: index and ioPos are the arguments of restart_frame (method 3).
func (d *driver) imgCallRestart(method int, src []byte, ri int, closed bool, pos uint64, pixfill int, index, ioPos uint64) imgObs {
	d.w8('J')
	d.w8(uint8(method))
	d.w32(uint32(len(src)))
	d.in.Write(src)
	d.w32(uint32(ri))
	if closed {
		d.w8(1)
	} else {
		d.w8(0)
	}
	d.w64(pos)
	d.w8(uint8(pixfill))
	if method == 3 {
		d.w64(index)
		d.w64(ioPos)
	}
	d.flush('J')
	var o imgObs
	o.status = d.rstatus()
	o.srcRi = int(d.r32())
	o.srcOK = d.r8() != 0
	o.mallocs, o.frees = int(int32(d.r32())), int(int32(d.r32()))
	switch method {
	case 0:
		o.w, o.h = int(d.r32()), int(d.r32())
		o.pixfmt = d.r32()
		o.firstFramePos = d.r64()
		o.workMin, o.workMax = d.r64(), d.r64()
	case 1:
		for i := range o.rect {
			o.rect[i] = d.r32()
		}
		o.duration, o.index, o.ioPos = d.r64(), d.r64(), d.r64()
		o.disposal = int(d.r8())
	case 2:
		o.tooBig = d.r8() != 0
		for i := range o.dirty {
			o.dirty[i] = d.r32()
		}
		o.hash = d.r64()
		o.pixels = d.rbytes(int(d.r32()))
	}
	o.nFrameConfigs, o.nFrames = d.r64(), d.r64()
	return o
}

// ---- corpus ----

type imgFile struct {
	kind int
	desc string
	data []byte
	// reference pixels (BGRA, non-premultiplied), when the file was written by
	// an independent encoder from a known image and is undamaged
	ref    [][]byte
	w, h   int
	valid  bool
	maxLen int
}

var imgRepoFiles []string

func repoImageFiles(repo string) []string {
	if imgRepoFiles != nil {
		return imgRepoFiles
	}
	for _, dir := range testDataDirs(repo) {
		ents, err := os.ReadDir(dir)
		if err != nil {
			continue
		}
		for _, e := range ents {
			if _, ok := imgExt[strings.ToLower(filepath.Ext(e.Name()))]; !ok || e.IsDir() {
				continue
			}
			if fi, err := e.Info(); err == nil && fi.Size() <= 400000 {
				imgRepoFiles = append(imgRepoFiles, filepath.Join(dir, e.Name()))
			}
		}
	}
	sort.Strings(imgRepoFiles)
	if len(imgRepoFiles) == 0 {
		fmt.Fprintln(os.Stderr, "csim: no image files under test/data")
		os.Exit(2)
	}
	return imgRepoFiles
}

// genImage draws a small image and encodes it with Go's png or gif encoder.
func genImage(t *sim.Tape) *imgFile {
	w, h := 1+t.Size(40), 1+t.Size(40)
	seed := uint64(t.Draw(1 << 30))
	px := sim.GenBytes(seed, w*h*4, t.Draw(6))
	switch t.Pick(3, 3, 2) {
	case 1:
		// natural-looking content: per-channel gradients plus a little noise
		// (what makes an encoder choose the Sub / Up / Average / Paeth filters)
		noise := sim.GenBytes(seed^0x9e3779b9, w*h*4, sim.PayRandom)
		amp := 1 + t.Draw(4)
		var ax, ay, c0 [4]int
		for c := 0; c < 4; c++ {
			ax[c], ay[c], c0[c] = t.Draw(7)-3, t.Draw(7)-3, t.Draw(256)
		}
		for y := 0; y < h; y++ {
			for x := 0; x < w; x++ {
				for c := 0; c < 4; c++ {
					i := (y*w+x)*4 + c
					v := c0[c] + ax[c]*x + ay[c]*y + int(noise[i])%(2*amp+1) - amp
					px[i] = uint8(v & 0xFF)
				}
			}
		}
	case 2:
		// flat blocks with sharp edges
		bw, bh := 1+t.Draw(6), 1+t.Draw(6)
		for y := 0; y < h; y++ {
			for x := 0; x < w; x++ {
				j := ((y/bh)*((w+bw-1)/bw) + x/bw) * 4
				copy(px[(y*w+x)*4:(y*w+x)*4+4], []byte{px[j%len(px)] & 0xF0, px[(j+1)%len(px)] & 0xF0, px[(j+2)%len(px)] & 0xF0, px[(j+3)%len(px)] | 0x0F})
			}
		}
	}
	bgra := func(c color.Color) []byte {
		n := color.NRGBAModel.Convert(c).(color.NRGBA)
		return []byte{n.B, n.G, n.R, n.A}
	}
	var buf bytes.Buffer
	f := &imgFile{w: w, h: h, valid: true}
	if t.Chance(3, 5) {
		f.kind = 5
		var img image.Image
		switch t.Pick(3, 2, 2, 2) {
		case 0:
			m := image.NewNRGBA(image.Rect(0, 0, w, h))
			copy(m.Pix, px)
			if t.Bool() { // opaque
				for i := 3; i < len(m.Pix); i += 4 {
					m.Pix[i] = 0xFF
				}
			}
			img = m
			f.desc = "go png NRGBA"
		case 1:
			m := image.NewGray(image.Rect(0, 0, w, h))
			copy(m.Pix, px)
			img = m
			f.desc = "go png Gray"
		case 2:
			n := 2 + t.Draw(255)
			pal := make(color.Palette, n)
			for i := range pal {
				pal[i] = color.NRGBA{px[(4*i)%len(px)], px[(4*i+1)%len(px)], px[(4*i+2)%len(px)], 0xFF}
			}
			m := image.NewPaletted(image.Rect(0, 0, w, h), pal)
			for i := range m.Pix {
				m.Pix[i] = uint8(int(px[i]) % n)
			}
			img = m
			f.desc = fmt.Sprintf("go png Paletted(%d)", n)
		default:
			m := image.NewRGBA(image.Rect(0, 0, w, h))
			copy(m.Pix, px)
			for i := 3; i < len(m.Pix); i += 4 {
				m.Pix[i] = 0xFF
			}
			img = m
			f.desc = "go png RGBA opaque"
		}
		enc := png.Encoder{CompressionLevel: []png.CompressionLevel{png.DefaultCompression, png.NoCompression, png.BestSpeed, png.BestCompression}[t.Draw(4)]}
		if err := enc.Encode(&buf, img); err != nil {
			fmt.Fprintln(os.Stderr, "csim: png encoder:", err)
			os.Exit(2)
		}
		ref := make([]byte, 0, w*h*4)
		for y := 0; y < h; y++ {
			for x := 0; x < w; x++ {
				ref = append(ref, bgra(img.At(x, y))...)
			}
		}
		f.ref = [][]byte{ref}
	} else if t.Chance(1, 2) {
		// an animation: several frames with their own rectangles, optional
		// local palettes and an optional transparent index. The driver decodes
		// every frame into the same pixel buffer with the SRC blend, so the
		// expected canvas after frame k is the canvas after frame k-1 with frame
		// k's rectangle overwritten (transparent pixels become transparent
		// black).
		f.kind = 1
		nf := 2 + t.Draw(4)
		if nf > maxImgFrames {
			nf = maxImgFrames
		}
		mkPal := func(off int) color.Palette {
			n := 2 + t.Draw(60)
			pal := make(color.Palette, n)
			for i := range pal {
				pal[i] = color.NRGBA{px[(4*i+off)%len(px)], px[(4*i+1+off)%len(px)], px[(4*i+2+off)%len(px)], 0xFF}
			}
			if t.Chance(1, 2) {
				pal[t.Draw(n)] = color.NRGBA{0, 0, 0, 0} // the transparent index
			}
			return pal
		}
		global := mkPal(0)
		g := &gif.GIF{Config: image.Config{ColorModel: global, Width: w, Height: h}}
		canvas := make([]byte, w*h*4)
		for k := 0; k < nf; k++ {
			r := image.Rect(0, 0, w, h)
			if k > 0 && t.Chance(2, 3) {
				x0, y0 := t.Draw(w), t.Draw(h)
				r = image.Rect(x0, y0, x0+1+t.Draw(w-x0), y0+1+t.Draw(h-y0))
			}
			pal := global
			if t.Chance(1, 3) {
				pal = mkPal(7 * (k + 1))
			}
			m := image.NewPaletted(r, pal)
			for i := range m.Pix {
				m.Pix[i] = uint8(int(px[(i*5+k*11)%len(px)]) % len(pal))
			}
			g.Image = append(g.Image, m)
			g.Delay = append(g.Delay, t.Draw(20))
			g.Disposal = append(g.Disposal, gif.DisposalNone)
			for y := r.Min.Y; y < r.Max.Y; y++ {
				for x := r.Min.X; x < r.Max.X; x++ {
					copy(canvas[(y*w+x)*4:], bgra(m.At(x, y)))
				}
			}
			f.ref = append(f.ref, append([]byte(nil), canvas...))
		}
		if err := gif.EncodeAll(&buf, g); err != nil {
			fmt.Fprintln(os.Stderr, "csim: gif encoder (animation):", err)
			os.Exit(2)
		}
		f.desc = fmt.Sprintf("go gif animation, %d frames", nf)
	} else {
		f.kind = 1
		n := 2 + t.Draw(255)
		pal := make(color.Palette, n)
		for i := range pal {
			pal[i] = color.NRGBA{px[(4*i)%len(px)], px[(4*i+1)%len(px)], px[(4*i+2)%len(px)], 0xFF}
		}
		m := image.NewPaletted(image.Rect(0, 0, w, h), pal)
		for i := range m.Pix {
			m.Pix[i] = uint8(int(px[(i*7)%len(px)]) % n)
		}
		if err := gif.Encode(&buf, m, &gif.Options{NumColors: n}); err != nil {
			fmt.Fprintln(os.Stderr, "csim: gif encoder:", err)
			os.Exit(2)
		}
		// gif.Encode re-quantises through the options' default quantiser only
		// when the image is not already paletted; ours is, so pixels are exact.
		ref := make([]byte, 0, w*h*4)
		for y := 0; y < h; y++ {
			for x := 0; x < w; x++ {
				ref = append(ref, bgra(m.At(x, y))...)
			}
		}
		f.ref = [][]byte{ref}
		f.desc = fmt.Sprintf("go gif Paletted(%d)", n)
	}
	f.data = buf.Bytes()
	f.desc += fmt.Sprintf(" %dx%d seed=%d (%d bytes)", w, h, seed, len(f.data))
	return f
}

func drawImage(t *sim.Tape, repo string, generatedOnly bool) *imgFile {
	if generatedOnly || t.Chance(2, 5) {
		return genImage(t)
	}
	files := repoImageFiles(repo)
	p := files[t.Draw(len(files))]
	b, err := os.ReadFile(p)
	if err != nil {
		fmt.Fprintln(os.Stderr, "csim:", err)
		os.Exit(2)
	}
	return &imgFile{kind: imgExt[strings.ToLower(filepath.Ext(p))], desc: "test/data/" + strings.TrimPrefix(p, filepath.Join(repo, "test", "data")+"/"), data: b}
}

func damageImage(t *sim.Tape, f *imgFile, o *sim.Outcome) {
	s := &stream{data: f.data, desc: f.desc}
	damage(t, s, o)
	f.data, f.desc, f.valid, f.ref = s.data, s.desc, false, nil
}

// ---- the delivery loop ----

type imgSched struct {
	tape     *sim.Tape // nil: everything at once
	policy   int       // 0 all at once, 1 fixed chunk, 2 drawn sizes, 3 one split point
	chunk    int
	splitAt  int
	lateEOF  bool
	spurious int
	keep     bool // keep consumed bytes in the buffer (no compaction)
}

func (s *imgSched) String() string {
	if s.tape == nil && s.policy == 0 {
		return "reference(all at once)"
	}
	return fmt.Sprintf("sched{src=%d/%d splitAt=%d lateEOF=%v spurious=%d keep=%v}", s.policy, s.chunk, s.splitAt, s.lateEOF, s.spurious, s.keep)
}

func drawImgSched(t *sim.Tape, n int) *imgSched {
	s := &imgSched{tape: t, splitAt: -1}
	s.policy = t.Pick(1, 3, 3, 2)
	s.chunk = 1 + t.Size(2048)
	if min := 1 + n/1500; s.chunk < min {
		s.chunk = min
	}
	if s.policy == 3 {
		s.splitAt = t.Draw(n + 1)
	}
	s.lateEOF = t.Chance(1, 3)
	s.spurious = t.Pick(3, 1, 1) * 2
	s.keep = t.Chance(1, 3)
	return s
}

type imgFrame struct {
	rect   [4]uint32
	dirty  [4]uint32
	hash   uint64
	pixels []byte
}

type imgResult struct {
	initStatus string
	cfgStatus  string
	w, h       int
	frames     []imgFrame
	final      string // "" when the walk ended with "@base: end of data" after at least zero frames
	consumed   int
	calls      int
	complete   bool
	giveUp     string
	bad        []string // buffer contract
	badStatus  []string
	unjust     []string
	allocated  []string
	trace      []string
}

func (r *imgResult) tracef(on bool, f string, a ...interface{}) {
	if on {
		r.trace = append(r.trace, fmt.Sprintf(f, a...))
	}
}

const maxImgFrames = 6

func runImage(d *driver, f *imgFile, sch *imgSched, setup objSetup, verbose bool) *imgResult {
	r := &imgResult{}
	var size int
	r.initStatus, size = d.imgNew(f.kind, setup.fill, setup.seed, setup.flags)
	_ = size
	if r.initStatus != "" {
		return r
	}
	data := f.data
	delivered, bufStart, consumed := 0, 0, 0
	closedTold := false
	spuriousLeft := sch.spurious
	deliver := func() {
		if delivered >= len(data) {
			closedTold = true
			return
		}
		k := len(data) - delivered
		switch sch.policy {
		case 1:
			k = sch.chunk
		case 2:
			k = 1 + sch.tape.Size(sch.chunk)
		case 3:
			if delivered < sch.splitAt {
				k = sch.splitAt - delivered
			}
		}
		if k > len(data)-delivered {
			k = len(data) - delivered
		}
		delivered += k
		if delivered == len(data) && !sch.lateEOF {
			closedTold = true
		}
	}
	deliver()
	phase := 0 // 0 image config, 1 frame config, 2 frame
	maxCalls := 4000 + 4*len(data)
	for r.calls < maxCalls {
		if !sch.keep {
			bufStart = consumed
		}
		src := data[bufStart:delivered]
		ri0 := consumed - bufStart
		obs := d.imgCall(phase, src, ri0, closedTold, uint64(bufStart), setup.dstFill)
		r.calls++
		r.tracef(verbose, "call %d: method %d src[%d:%d) ri=%d closed=%v -> %q consumed+%d", r.calls, phase, bufStart, delivered, ri0, closedTold, obs.status, obs.srcRi-ri0)
		if obs.mallocs > 0 || obs.frees > 0 {
			r.allocated = append(r.allocated, fmt.Sprintf("call %d (method %d): %d malloc and %d free calls happened inside the decoder", r.calls, phase, obs.mallocs, obs.frees))
		}
		if !obs.srcOK {
			r.bad = append(r.bad, fmt.Sprintf("call %d: the source buffer's bytes or its wi/pos/closed/ptr/len were modified", r.calls))
		}
		if obs.srcRi < ri0 || obs.srcRi > len(src) {
			r.bad = append(r.bad, fmt.Sprintf("call %d: source ri moved from %d to %d (wi=%d)", r.calls, ri0, obs.srcRi, len(src)))
			r.giveUp = "source index out of range"
			return r
		}
		consumed = bufStart + obs.srcRi
		r.consumed = consumed
		s := obs.status
		if strings.Contains(s, "internal error") {
			r.badStatus = append(r.badStatus, fmt.Sprintf("call %d (method %d) returned %q", r.calls, phase, s))
		}
		if phase == 2 && obs.tooBig {
			r.giveUp = "image larger than the harness allocates"
			return r
		}
		switch {
		case s == "$base: short read":
			if closedTold && delivered == len(data) {
				r.unjust = append(r.unjust, fmt.Sprintf("call %d (method %d): \"$base: short read\" on a closed, fully supplied source (ri=%d of %d)", r.calls, phase, consumed, len(data)))
				r.final = s
				r.complete = true
				return r
			}
			if spuriousLeft > 0 && sch.tape != nil && sch.tape.Chance(1, 4) {
				spuriousLeft-- // wake up without new input
			} else {
				deliver()
			}
			continue
		case isSuspension(s):
			r.badStatus = append(r.badStatus, fmt.Sprintf("call %d (method %d): unexpected suspension %q from an image decoder", r.calls, phase, s))
			r.final = s
			r.complete = true
			return r
		}
		switch phase {
		case 0:
			r.cfgStatus = s
			if s != "" {
				// an error, or a note such as "@base: I/O redirect" (a BMP that
				// embeds a PNG): the walk ends here
				r.final, r.complete = s, true
				return r
			}
			r.w, r.h = obs.w, obs.h
			phase = 1
		case 1:
			if s == "@base: end of data" {
				r.complete = true
				return r
			}
			if isError(s) {
				r.final, r.complete = s, true
				return r
			}
			r.frames = append(r.frames, imgFrame{rect: obs.rect})
			phase = 2
		case 2:
			fr := &r.frames[len(r.frames)-1]
			fr.dirty, fr.hash, fr.pixels = obs.dirty, obs.hash, obs.pixels
			if isError(s) {
				r.final, r.complete = s, true
				return r
			}
			if len(r.frames) >= maxImgFrames {
				r.complete = true
				r.giveUp = "frame limit"
				return r
			}
			phase = 1
		}
	}
	r.giveUp = "call limit"
	return r
}

func describeImg(f *imgFile, sch *imgSched) string {
	return fmt.Sprintf("%s image decoder; file: %s (%d bytes); %s", imgNames[f.kind], f.desc, len(f.data), sch)
}

func imgProbes(o *sim.Outcome, f *imgFile, r *imgResult) {
	o.Steps += int64(r.calls)
	o.ProbeN("image_calls", int64(r.calls))
	o.Probe("image_decoder_" + imgNames[f.kind])
	o.ProbeN("image_frames_decoded", int64(len(r.frames)))
	if r.giveUp != "" {
		o.Probe("harness_gave_up: " + r.giveUp)
	}
	if isError(r.final) {
		o.Probe("image_final_error")
	} else if r.complete {
		o.Probe("image_final_ok")
	}
}

// imgPerCall reports the facts C03 owns.
func imgPerCall(o *sim.Outcome, f *imgFile, r *imgResult, where string) bool {
	switch {
	case len(r.allocated) > 0:
		o.Fail("decoder_allocates", "decoder_allocates:"+imgNames[f.kind], "generated code must never allocate or free: %s; %s", r.allocated[0], where)
	case len(r.bad) > 0:
		o.Fail("io_buffer_contract", "io_buffer_contract:"+imgNames[f.kind], "%s; %s", r.bad[0], where)
	case len(r.badStatus) > 0:
		o.Fail("bad_status", "bad_status:"+imgNames[f.kind], "%s; %s", r.badStatus[0], where)
	case len(r.unjust) > 0:
		o.Fail("unjustified_suspension", "unjustified:short_read:"+imgNames[f.kind], "%s; %s", r.unjust[0], where)
	default:
		return false
	}
	return true
}

func runC03Images(t *sim.Tape, opt sim.RunOpt) *sim.Outcome {
	o := &sim.Outcome{}
	f := drawImage(t, opt.Extra["repo"], false)
	if t.Chance(4, 5) {
		damageImage(t, f, o)
	}
	sch := drawImgSched(t, len(f.data))
	setup := drawSetup(t)
	where := describeImg(f, sch)
	o.Sample = where
	fp := sim.NewFP()
	fp.AddStr(where)
	o.FP = fp.Sum()
	var r *imgResult
	guard(o, func() string { return where }, func() {
		r = runImage(getDriver(opt, "asan"), f, sch, setup, opt.Verbose)
	})
	o.Nontrivial = true
	if r == nil {
		return o
	}
	o.Trace = append(o.Trace, r.trace...)
	imgProbes(o, f, r)
	if r.initStatus != "" {
		o.Fail("initialize_failed", "initialize_failed:"+imgNames[f.kind], "initialize returned %q; %s", r.initStatus, where)
		return o
	}
	imgPerCall(o, f, r, where)
	return o
}

func sameFrames(a, b *imgResult) (bool, string) {
	if a.cfgStatus != b.cfgStatus || a.w != b.w || a.h != b.h {
		return false, fmt.Sprintf("image config: %q %dx%d vs %q %dx%d", a.cfgStatus, a.w, a.h, b.cfgStatus, b.w, b.h)
	}
	if a.final != b.final {
		return false, fmt.Sprintf("final status %q vs %q", a.final, b.final)
	}
	if len(a.frames) != len(b.frames) {
		return false, fmt.Sprintf("%d vs %d frames", len(a.frames), len(b.frames))
	}
	for i := range a.frames {
		if a.frames[i].rect != b.frames[i].rect {
			return false, fmt.Sprintf("frame %d bounds %v vs %v", i, a.frames[i].rect, b.frames[i].rect)
		}
		if a.frames[i].hash != b.frames[i].hash {
			return false, fmt.Sprintf("frame %d pixels differ (hash %016x vs %016x)", i, a.frames[i].hash, b.frames[i].hash)
		}
	}
	return true, ""
}

func runC05Images(t *sim.Tape, opt sim.RunOpt) *sim.Outcome {
	o := &sim.Outcome{}
	f := drawImage(t, opt.Extra["repo"], false)
	if t.Chance(1, 3) {
		damageImage(t, f, o)
	}
	setup := objSetup{fill: 0, fresh: true}
	sch := drawImgSched(t, len(f.data))
	if sch.policy == 0 {
		sch.policy = 2
	}
	where := describeImg(f, sch)
	o.Sample = where
	fp := sim.NewFP()
	fp.AddStr(where)
	o.FP = fp.Sum()
	o.Nontrivial = true
	var ref, r *imgResult
	guard(o, func() string { return where + " [one delivery]" }, func() {
		ref = runImage(getDriver(opt, "asan"), f, &imgSched{splitAt: -1}, setup, false)
	})
	if ref == nil {
		return o
	}
	guard(o, func() string { return where }, func() {
		r = runImage(getDriver(opt, "asan"), f, sch, setup, opt.Verbose)
	})
	if r == nil {
		return o
	}
	o.Trace = append(o.Trace, r.trace...)
	imgProbes(o, f, r)
	if ref.giveUp != "" || r.giveUp != "" || !ref.complete || !r.complete || ref.initStatus != "" {
		o.Probe("image_no_comparison")
		return o
	}
	if len(ref.unjust) > 0 || len(r.unjust) > 0 {
		// C03's subject; a starved decoder has no final result to compare
		o.Probe("image_no_comparison_unjustified_suspension")
		return o
	}
	if ok, why := sameFrames(ref, r); !ok {
		o.Fail("split_changes_output", "split_changes_output:"+imgNames[f.kind], "one delivery and the split delivery disagree: %s; %s", why, where)
		return o
	}
	if !isError(r.final) && ref.consumed != r.consumed {
		o.Fail("split_changes_consumed", "split_changes_consumed:"+imgNames[f.kind], "consumed %d bytes in one delivery, %d in the split delivery (final status %q); %s", ref.consumed, r.consumed, r.final, where)
		return o
	}
	o.Probe("image_split_agrees")
	return o
}

func runC07Images(t *sim.Tape, opt sim.RunOpt) *sim.Outcome {
	o := &sim.Outcome{}
	f := drawImage(t, opt.Extra["repo"], true)
	sch := drawImgSched(t, len(f.data))
	setup := drawSetup(t)
	variant := []string{"asan", "plain", "asan_nosimd"}[t.Draw(3)]
	where := describeImg(f, sch) + "; build " + variant
	o.Sample = where
	fp := sim.NewFP()
	fp.AddStr(where)
	o.FP = fp.Sum()
	o.Nontrivial = true
	var r *imgResult
	guard(o, func() string { return where }, func() {
		r = runImage(getDriver(opt, variant), f, sch, setup, opt.Verbose)
	})
	if r == nil {
		return o
	}
	o.Trace = append(o.Trace, r.trace...)
	imgProbes(o, f, r)
	if r.giveUp != "" && r.giveUp != "frame limit" || !r.complete {
		o.Probe("image_no_comparison")
		return o
	}
	if r.initStatus != "" || r.cfgStatus != "" || r.final != "" {
		o.Fail("valid_image_rejected", "valid_image_rejected:"+imgNames[f.kind], "an image written by Go's encoder was not decoded: initialize %q, image config %q, final %q; %s", r.initStatus, r.cfgStatus, r.final, where)
		return o
	}
	if r.w != f.w || r.h != f.h || len(r.frames) != len(f.ref) {
		o.Fail("decoded_image_differs", "decoded_image_differs:"+imgNames[f.kind]+":shape", "decoded %dx%d with %d frames, the original is %dx%d with %d; %s", r.w, r.h, len(r.frames), f.w, f.h, len(f.ref), where)
		return o
	}
	for i, fr := range r.frames {
		if fr.pixels == nil {
			o.Probe("image_no_comparison")
			return o
		}
		if !bytes.Equal(fr.pixels, f.ref[i]) {
			k := 0
			for k < len(fr.pixels) && k < len(f.ref[i]) && fr.pixels[k] == f.ref[i][k] {
				k++
			}
			o.Fail("decoded_image_differs", "decoded_image_differs:"+imgNames[f.kind], "frame %d: decoded BGRA pixels differ from the original at byte %d (pixel %d, channel %d): %v vs %v; %s", i, k, k/4, k%4, fr.pixels[k&^3:k&^3+4], f.ref[i][k&^3:k&^3+4], where)
			return o
		}
	}
	o.Probe("image_pixels_equal_original")
	return o
}

// ---- C09: one image and one delivery schedule across memory / flag / CPU-path variants ----

func runC09Images(t *sim.Tape, opt sim.RunOpt) *sim.Outcome {
	o := &sim.Outcome{}
	f := drawImage(t, opt.Extra["repo"], false)
	damaged := false
	if t.Chance(1, 3) {
		damageImage(t, f, o)
		damaged = true
	}
	schedSeed := t.Draw(1 << 30)
	mkSched := func() *imgSched { return drawImgSched(sim.NewTape(uint64(schedSeed)), len(f.data)) }
	run := func(build string, setup objSetup, what string, verbose bool) *imgResult {
		var r *imgResult
		guard(o, func() string { return what }, func() {
			r = runImage(getDriver(opt, build), f, mkSched(), setup, verbose)
		})
		return r
	}
	baseDesc := fmt.Sprintf("%s image decoder; file: %s (%d bytes); schedule seed %d", imgNames[f.kind], f.desc, len(f.data), schedSeed)
	o.Sample = baseDesc
	fp := sim.NewFP()
	fp.AddStr(baseDesc)
	o.FP = fp.Sum()
	o.Nontrivial = true
	ref := run("asan", objSetup{fill: 0, flags: initDefault, fresh: true}, baseDesc+" [base: asan build, zeroed memory, default flags]", false)
	if ref == nil {
		return o
	}
	imgProbes(o, f, ref)
	builds := []string{"asan", "asan_nosimd", "plain", "plain_nosimd"}
	n := 3 + t.Draw(3)
	for i := 0; i < n; i++ {
		build := builds[t.Draw(len(builds))]
		setup := objSetup{fill: t.Draw(3), dstFill: t.Draw(3), seed: uint32(t.Draw(1 << 20)), fresh: true}
		switch t.Pick(2, 1, 2) {
		case 1:
			setup.fill, setup.flags = 0, initAlreadyZeroed
		case 2:
			setup.flags = initLeaveBuffersUninit
		}
		if i == 0 {
			build, setup = "asan_nosimd", objSetup{fill: 0, flags: initDefault, fresh: true}
		}
		cpuPath := strings.HasSuffix(build, "_nosimd")
		if cpuPath && imgNames[f.kind] == "jpeg" && (damaged || strings.Contains(f.desc, "artificial-")) {
			// The documented exception: the two inverse-DCT variants need only
			// agree on blocks an encoder can produce. A damaged file, or one of
			// the hand-made files under test/data/artificial-jpeg, is not known
			// to be encoder-produced.
			o.Probe("variant_skipped_jpeg_idct_exception")
			continue
		}
		where := fmt.Sprintf("%s; base (asan, zeroed, default flags) vs variant (build %s, object pre-fill %d, pixel pre-fill %d, flags %#x)", baseDesc, build, setup.fill, setup.dstFill, setup.flags)
		got := run(build, setup, where, opt.Verbose && i == 1)
		if got == nil {
			return o
		}
		o.Steps += int64(got.calls)
		o.Probe("variant_build_" + build)
		o.Probe(fmt.Sprintf("variant_flags_%#x", setup.flags))
		kind := "memory_or_flags"
		if cpuPath {
			kind = "cpu_path"
		}
		key := func(class string) string { return class + ":" + imgNames[f.kind] + ":" + kind }
		switch {
		case got.initStatus != ref.initStatus:
			o.Fail("variant_changes_init_status", key("variant_changes_init_status"), "initialize returned %q vs %q; %s", got.initStatus, ref.initStatus, where)
			return o
		case got.complete != ref.complete || got.giveUp != ref.giveUp || len(got.unjust) != len(ref.unjust):
			o.Probe("variant_comparison_skipped")
			continue
		}
		// The pixel buffer's pre-fill is part of what a partially decoded or
		// partially covering frame shows, so pixels are compared only when the
		// pre-fill is the base's.
		cmp := *got
		if setup.dstFill != 0 {
			cmp.frames = append([]imgFrame(nil), got.frames...)
			for k := range cmp.frames {
				if k < len(ref.frames) {
					cmp.frames[k].hash = ref.frames[k].hash
				}
			}
		}
		if ok, why := sameFrames(ref, &cmp); !ok {
			o.Fail("variant_changes_output", key("variant_changes_output"), "%s; %s", why, where)
			return o
		}
		if !isError(got.final) && got.consumed != ref.consumed {
			o.Fail("variant_changes_consumed", key("variant_changes_consumed"), "consumed %d vs %d bytes (final status %q); %s", got.consumed, ref.consumed, got.final, where)
			return o
		}
	}
	o.Probe("image_variants_agree")
	return o
}
