package main

// C09 (results depend only on the input) and C08 (call protocol and I/O buffer
// contract) on the io_transformer decoders.

import (
	"bytes"
	"fmt"
	"os"
	"strings"

	"verif/sim"
)

// ---- C09 ----

type variant struct {
	build   string
	fill    int
	flags   uint32
	reuse   bool // the object memory held a completed decode of another stream before
	dstFill int
}

func (v variant) String() string {
	return fmt.Sprintf("{build=%s objfill=%d flags=%#x reuse=%v dstfill=%d}", v.build, v.fill, v.flags, v.reuse, v.dstFill)
}

func runVariant(o *sim.Outcome, opt sim.RunOpt, st, prior *stream, schedSeed int, v variant, verbose bool) *runResult {
	d := getDriver(opt, v.build)
	hint := outHint(st)
	var r *runResult
	where := func() string { return xformNames[st.kind] + " decoder; " + st.desc + "; variant " + v.String() }
	guard(o, where, func() {
		fresh := true
		fill := v.fill
		if v.reuse {
			// A completed (or failed) decode of another stream first, in the
			// same object memory.
			runStream(d, prior, referenceSchedule(outHint(prior)), objSetup{fill: 2, seed: 99, fresh: true}, false)
			fresh, fill = false, 3
		}
		sch := drawSchedule(sim.NewTape(uint64(schedSeed)), len(st.data), hint)
		sch.dstCap = hint
		r = runStream(d, st, sch, objSetup{fill: fill, seed: uint32(schedSeed), flags: v.flags, dstFill: v.dstFill, fresh: fresh}, verbose)
	})
	return r
}

func runC09(t *sim.Tape, opt sim.RunOpt) *sim.Outcome {
	if opt.Mode == "image_variants" {
		return runC09Images(t, opt)
	}
	o := &sim.Outcome{}
	st, err := drawStream(t, opt.Extra["repo"], 12000, true)
	if err != nil {
		fmt.Fprintln(os.Stderr, "csim: corpus:", err)
		os.Exit(2)
	}
	if t.Chance(1, 3) {
		damage(t, st, o)
	}
	// The stream whose decode precedes a reuse: same decoder kind (the object
	// is the same type), different content.
	var prior *stream
	for i := 0; i < 8; i++ {
		p, err := drawStream(sim.NewTape(uint64(t.Draw(1<<30))), opt.Extra["repo"], 6000, false)
		if err == nil && p.kind == st.kind {
			prior = p
			break
		}
	}
	schedSeed := t.Draw(1 << 30)
	base := variant{build: "asan", fill: 0, flags: initDefault, dstFill: 0}
	ref := runVariant(o, opt, st, prior, schedSeed, base, false)
	fp := sim.NewFP()
	fp.AddStr(st.desc)
	fp.Add(sim.Hash64(st.data))
	fp.Add(uint64(schedSeed))
	o.FP = fp.Sum()
	o.Sample = fmt.Sprintf("%s decoder; %s; schedule seed %d; base %v", xformNames[st.kind], st.desc, schedSeed, base)
	if ref == nil {
		o.Nontrivial = true
		return o
	}
	addRunProbes(o, ref)
	o.Nontrivial = ref.calls >= 2
	builds := []string{"asan", "asan_nosimd", "plain", "plain_nosimd"}
	n := 3 + t.Draw(3)
	for i := 0; i < n; i++ {
		v := variant{build: builds[t.Draw(len(builds))], fill: t.Draw(3), dstFill: t.Draw(3)}
		switch t.Pick(2, 1, 2) {
		case 1:
			v.fill, v.flags = 0, initAlreadyZeroed // only legal on zeroed memory
		case 2:
			v.flags = initLeaveBuffersUninit
		}
		if prior != nil && t.Chance(1, 3) && v.flags != initAlreadyZeroed {
			v.reuse = true
		}
		if i == 0 {
			// Always compare the portable twin of the base.
			v = variant{build: "asan_nosimd", fill: 0, flags: initDefault, dstFill: 0}
		}
		got := runVariant(o, opt, st, prior, schedSeed, v, opt.Verbose && i == 1)
		if got == nil {
			return o
		}
		o.Steps += int64(got.calls)
		o.Probe("variant_build_" + v.build)
		o.Probe(fmt.Sprintf("variant_flags_%#x", v.flags))
		o.Probe(fmt.Sprintf("variant_objfill_%d", v.fill))
		if v.reuse {
			o.Probe("variant_reused_object")
		}
		if opt.Verbose && i == 1 {
			o.Trace = append(o.Trace, got.trace...)
		}
		where := fmt.Sprintf("%s decoder; %s; schedule seed %d; base %v vs variant %v", xformNames[st.kind], st.desc, schedSeed, base, v)
		kind := "memory_or_flags"
		if strings.HasSuffix(v.build, "_nosimd") != strings.HasSuffix(base.build, "_nosimd") {
			kind = "cpu_path"
		}
		key := func(class string) string { return class + ":" + xformNames[st.kind] + ":" + kind }
		switch {
		case got.initStatus != ref.initStatus:
			o.Fail("variant_changes_init_status", key("variant_changes_init_status"), "initialize returned %q vs %q; %s", got.initStatus, ref.initStatus, where)
		case got.complete != ref.complete || got.giveUp != ref.giveUp:
			o.Probe("variant_comparison_skipped")
		case got.final != ref.final:
			o.Fail("variant_changes_status", key("variant_changes_status"), "final status %q vs %q; %s", got.final, ref.final, where)
		case !bytes.Equal(got.out, ref.out):
			o.Fail("variant_changes_output", key("variant_changes_output"), "output differs at byte %d (lengths %d vs %d); %s", firstDiffB(got.out, ref.out), len(got.out), len(ref.out), where)
		case got.consumed != ref.consumed:
			o.Fail("variant_changes_consumed", key("variant_changes_consumed"), "consumed %d vs %d source bytes; %s", got.consumed, ref.consumed, where)
		case got.rec.Sum() != ref.rec.Sum() || got.calls != ref.calls:
			o.Fail("variant_changes_call_records", key("variant_changes_call_records"), "the same schedule produced a different sequence of per-call statuses / consumed counts / written bytes (%d vs %d calls) although output and final status agree; %s", got.calls, ref.calls, where)
		}
		if o.Class != "" {
			return o
		}
	}
	return o
}

func firstDiffB(a, b []byte) int {
	i := 0
	for i < len(a) && i < len(b) && a[i] == b[i] {
		i++
	}
	return i
}

// ---- C08 ----

const (
	lcRaw = iota
	lcReady
	lcSuspended
	lcDisabled
	lcNoClaim // after a failed initialize, or after the decode finished: the property says nothing
)

var lcNames = []string{"Raw", "Ready", "Suspended", "Disabled", "NoClaim"}

const (
	stBadSizeof   = "#base: bad sizeof receiver"
	stBadVersion  = "#base: bad wuffs version"
	stNotInit     = "#base: initialize not called"
	stDisabled    = "#base: disabled by previous error"
	stBadArgument = "#base: bad argument"
)

func runC08(t *sim.Tape, opt sim.RunOpt) *sim.Outcome {
	if opt.Mode == "image_histories" {
		return runC08Images(t, opt)
	}
	o := &sim.Outcome{}
	st, err := drawStream(t, opt.Extra["repo"], 6000, false)
	if err != nil {
		fmt.Fprintln(os.Stderr, "csim: corpus:", err)
		os.Exit(2)
	}
	if t.Chance(1, 2) {
		damage(t, st, o)
	}
	d := getDriver(opt, "asan")
	hint := outHint(st)
	fill := t.Draw(3)
	var hist []string
	state := lcRaw
	consumed, work := 0, 0
	bufStart := 0 // the source buffer handed to the callee starts here; <= consumed
	// The producer, as in the delivery loop of run.go: per-run policies rather
	// than per-call coin flips, so that natural multi-step situations (all of
	// a truncated stream delivered, end of input learnt only afterwards, source
	// never compacted) are reached in a useful fraction of the histories.
	delivered := 0
	lateEOF := t.Bool()
	keepPolicy := t.Pick(1, 1, 1) // 0 compact before every call, 1 never, 2 drawn
	deliverAll := t.Bool()
	steps := 3 + t.Draw(9)
	where := func() string {
		return fmt.Sprintf("%s decoder; %s; raw object memory fill %d; history: %s", xformNames[st.kind], st.desc, fill, strings.Join(hist, "; "))
	}
	fail := func(class, key, format string, a ...interface{}) {
		o.Fail(class, key+":"+xformNames[st.kind], "%s; %s", fmt.Sprintf(format, a...), where())
	}
	guard(o, where, func() {
		d.allocRaw(st.kind, fill, uint32(t.Draw(1<<20)), hint)
		for i := 0; i < steps && o.Class == ""; i++ {
			before := state
			switch op := t.Pick(3, 1, 1, 6, 1, 1); op {
			case 0, 1, 2: // initialize: ok / bad sizeof / bad version
				a := newArgs{kind: st.kind, fill: 3, dstCap: hint, fresh: false}
				want := ""
				name := "initialize"
				switch op {
				case 1:
					a.sizeofMode = 1 + t.Draw(2)
					want, name = stBadSizeof, fmt.Sprintf("initialize(sizeof %+d)", 3-2*a.sizeofMode)
				case 2:
					a.versionMode = 1
					want, name = stBadVersion, "initialize(wrong version)"
				}
				got, _ := d.newObject(a)
				hist = append(hist, fmt.Sprintf("%s -> %q", name, got))
				if got != want {
					fail("initialize_status", "initialize_status", "%s returned %q, expected %q", name, got, want)
					return
				}
				if op == 0 {
					state, consumed, bufStart, delivered = lcReady, 0, 0, 0
					wmin, _, _, _ := d.query()
					work = int(wmin)
				} else {
					state = lcNoClaim
				}
				o.Probe("op_" + strings.Fields(name)[0])
			default: // a transform_io call
				shape := 0
				if op == 4 {
					shape = 1
				} else if op == 5 {
					shape = 2
				}
				// The producer's step: bring the rest, a drawn part, or (once
				// everything was delivered) nothing; the closed flag is set as
				// soon as the last byte is present, or - late EOF - only with
				// a later, empty delivery.
				more := len(st.data) - delivered
				n := more
				if !deliverAll && more > 1 && t.Chance(2, 3) {
					n = 1 + t.Draw(more-1)
				}
				wasComplete := delivered == len(st.data)
				delivered += n
				closed := delivered == len(st.data) && (!lateEOF || wasComplete)
				switch keepPolicy {
				case 0:
					bufStart = consumed
				case 2:
					if t.Bool() {
						bufStart = consumed
					}
				}
				if consumed-bufStart > 4096 {
					bufStart = consumed
				}
				ri0 := consumed - bufStart
				src := st.data[bufStart:delivered]
				obs := d.call(callArgs{src: src, srcRi: ri0, closed: closed, pos: uint64(bufStart), dstSpace: hint, workLen: work, argShape: shape, preDrain: -1})
				if n == 0 && closed {
					o.Probe("empty_closing_delivery")
				}
				if ri0 > 0 {
					o.Probe("call_with_consumed_prefix_in_source")
				}
				name := []string{"transform_io", "transform_io(NULL src)", "transform_io(NULL dst)"}[shape]
				hist = append(hist, fmt.Sprintf("%s[+%d bytes, ri=%d, closed=%v] in %s -> %q ri=%d", name, n, ri0, closed, lcNames[before], obs.status, obs.srcRi))
				o.Probe("call_in_" + lcNames[before])
				if shape != 0 {
					o.Probe("call_with_null_buffer")
				}
				// ---- the buffer contract, on every call ----
				if shape != 1 {
					if !obs.srcOK {
						fail("io_buffer_contract", "io_buffer_contract", "the source buffer's bytes or meta were modified")
						return
					}
					if obs.srcRi > len(src) {
						fail("io_buffer_contract", "io_buffer_contract", "source ri %d beyond wi %d", obs.srcRi, len(src))
						return
					}
					if obs.srcRi < ri0 {
						fail("io_buffer_contract", "io_buffer_contract:ri_backwards", "the source's read index moved backwards, from %d to %d", ri0, obs.srcRi)
						return
					}
				}
				if !obs.dstPrefixOK || obs.dstWiAfter < obs.dstWiBefore || obs.dstWiAfter > obs.dstLen {
					fail("io_buffer_contract", "io_buffer_contract", "destination prefix modified or wi %d -> %d (len %d)", obs.dstWiBefore, obs.dstWiAfter, obs.dstLen)
					return
				}
				// ---- the life cycle ----
				want := ""
				switch before {
				case lcRaw:
					want = stNotInit
				case lcDisabled:
					want = stDisabled
				case lcReady, lcSuspended:
					if shape != 0 {
						want = stBadArgument
					}
				}
				if want != "" && obs.status != want {
					fail("call_protocol", "call_protocol:"+lcNames[before], "%s in state %s returned %q, expected %q", name, lcNames[before], obs.status, want)
					return
				}
				switch before {
				case lcReady, lcSuspended:
					switch {
					case shape != 0 || isError(obs.status):
						state = lcDisabled
					case obs.status == suspShortWorkbuf:
						work = int(obs.workMin)
						if work > maxWork {
							return
						}
						state = lcSuspended
					case isSuspension(obs.status):
						state = lcSuspended
						if shape == 0 {
							consumed = bufStart + obs.srcRi
						}
						if obs.status == suspShortWrite {
							d.drain(1 << 30)
							d.compact(0, false)
						}
					default:
						state = lcNoClaim // finished: what a further call does is decoder-specific
					}
				}
			}
		}
	})
	fp := sim.NewFP()
	fp.AddStr(where())
	o.FP = fp.Sum()
	o.Sample = where()
	o.Nontrivial = len(hist) >= 3
	o.Steps = int64(len(hist))
	if opt.Verbose {
		for _, h := range hist {
			o.Tracef("%s", h)
		}
	}
	return o
}
