package main

// Client side of the csim driver protocol (see /verif/csim/driver.c).

import (
	"bufio"
	"encoding/binary"
	"fmt"
	"io"
	"os"
	"os/exec"
	"strings"
	"time"
)

// Decoder kinds, in the order of the driver's xforms[] table.
var xformNames = []string{"deflate", "zlib", "gzip", "lzw", "bzip2", "lzma", "xz", "lzip"}

func xformKind(name string) int {
	for i, n := range xformNames {
		if n == name {
			return i
		}
	}
	return -1
}

const (
	initDefault            = 0x0
	initAlreadyZeroed      = 0x1
	initLeaveBuffersUninit = 0x2
)

// driver is one persistent child process of one build variant.
type driver struct {
	variant string
	path    string
	cmd     *exec.Cmd
	in      *bufio.Writer
	out     *bufio.Reader
	stdin   io.WriteCloser
	errPath string
	dead    bool
	calls   int64
}

// crashed is the panic value used when the child died mid-request (a sanitizer
// report, or a plain crash): the run function recovers it and reports.
type crashed struct {
	variant string
	stderr  string
}

func startDriver(variant, path, errDir string) (*driver, error) {
	d := &driver{variant: variant, path: path}
	f, err := os.CreateTemp(errDir, "drv-"+variant+"-*.stderr")
	if err != nil {
		return nil, err
	}
	d.errPath = f.Name()
	d.cmd = exec.Command(path)
	d.cmd.Stderr = f
	d.cmd.Env = append(os.Environ(),
		"ASAN_OPTIONS=detect_leaks=0:abort_on_error=0:allocator_may_return_null=1:detect_stack_use_after_return=0",
		"UBSAN_OPTIONS=print_stacktrace=1:halt_on_error=1")
	d.stdin, err = d.cmd.StdinPipe()
	if err != nil {
		return nil, err
	}
	so, err := d.cmd.StdoutPipe()
	if err != nil {
		return nil, err
	}
	if err := d.cmd.Start(); err != nil {
		return nil, err
	}
	f.Close()
	d.in = bufio.NewWriterSize(d.stdin, 1<<16)
	d.out = bufio.NewReaderSize(so, 1<<16)
	return d, nil
}

func (d *driver) stop() {
	if d == nil || d.cmd == nil {
		return
	}
	d.stdin.Close()
	d.cmd.Wait()
	os.Remove(d.errPath)
	d.cmd = nil
}

// fail collects the child's stderr and panics with crashed.
func (d *driver) fail(what string, err error) {
	d.dead = true
	d.stdin.Close()
	d.cmd.Wait()
	b, _ := os.ReadFile(d.errPath)
	s := string(b)
	if len(s) > 6000 {
		s = s[:6000] + "\n...(truncated)"
	}
	panic(crashed{d.variant, fmt.Sprintf("%s: %v\n%s", what, err, s)})
}

func (d *driver) w8(v uint8) { d.in.WriteByte(v) }
func (d *driver) w32(v uint32) {
	var b [4]byte
	binary.LittleEndian.PutUint32(b[:], v)
	d.in.Write(b[:])
}
func (d *driver) w64(v uint64) {
	var b [8]byte
	binary.LittleEndian.PutUint64(b[:], v)
	d.in.Write(b[:])
}

// opNanos accumulates wall time per request kind (harness cost accounting
// only; reported as probes, never part of a verdict).
var opNanos = map[byte]int64{}
var opCount = map[byte]int64{}

func (d *driver) flush(op byte) {
	t0 := time.Now()
	defer func() { opNanos[op] += time.Since(t0).Nanoseconds(); opCount[op]++ }()
	if err := d.in.Flush(); err != nil {
		d.fail("write", err)
	}
	b, err := d.out.ReadByte()
	if err != nil {
		d.fail("the driver died during request "+string(op), err)
	}
	if b != op|0x20 {
		d.fail("protocol", fmt.Errorf("reply %q to request %q", b, op))
	}
}

func (d *driver) rbytes(n int) []byte {
	b := make([]byte, n)
	if _, err := io.ReadFull(d.out, b); err != nil {
		d.fail("read", err)
	}
	return b
}
func (d *driver) r8() uint8   { return d.rbytes(1)[0] }
func (d *driver) r32() uint32 { return binary.LittleEndian.Uint32(d.rbytes(4)) }
func (d *driver) r64() uint64 { return binary.LittleEndian.Uint64(d.rbytes(8)) }

// rstatus returns "" for the NULL (ok) status.
func (d *driver) rstatus() string {
	n := d.r32()
	if n == 0xFFFFFFFF {
		return ""
	}
	return string(d.rbytes(int(n)))
}

type newArgs struct {
	kind        int
	fill        int // 0 zeroes, 1 0xFF, 2 pseudo-random, 3 keep
	seed        uint32
	flags       uint32
	sizeofMode  int
	versionMode int
	dstCap      int
	dstFill     int
	fresh       bool
}

func (d *driver) newObject(a newArgs) (status string, size int) {
	d.w8('N')
	d.w32(uint32(a.kind))
	d.w32(uint32(a.fill))
	d.w32(a.seed)
	d.w32(a.flags)
	d.w32(uint32(a.sizeofMode))
	d.w32(uint32(a.versionMode))
	d.w32(uint32(a.dstCap))
	d.w32(uint32(a.dstFill))
	if a.fresh {
		d.w8(1)
	} else {
		d.w8(0)
	}
	d.flush('N')
	status = d.rstatus()
	size = int(d.r32())
	return
}

// allocRaw gives the driver object memory of the right size for kind, filled
// but never initialised.
func (d *driver) allocRaw(kind, fill int, seed uint32, dstCap int) int {
	d.w8('A')
	d.w32(uint32(kind))
	d.w32(uint32(fill))
	d.w32(seed)
	d.w32(uint32(dstCap))
	d.flush('A')
	return int(d.r32())
}

type callArgs struct {
	src      []byte // whole source buffer handed to the callee
	srcRi    int    // initial read index (bytes before it were consumed earlier)
	closed   bool
	pos      uint64 // stream position of src[0]
	dstSpace int
	workLen  int
	argShape int
	// consumer actions since the previous call, executed by the driver
	// before the call in the same round trip
	preDrain   int // -1 = none
	preCompact bool
	retain     int
	relocate   bool
}

// callObs is the observation record of one call: facts only.
type callObs struct {
	drained int // bytes the pre-drain took
	moved   int // bytes the pre-compaction discarded from the front
	status  string
	srcRi   int
	srcOK   bool
	// mallocs, frees: allocator calls during the decoder call (-1: this build
	// cannot tell)
	mallocs, frees int
	dstWiBefore    int
	dstWiAfter     int
	dstRi          int
	dstPos         uint64
	dstClosed      bool
	dstPrefixOK    bool
	dstLen         int
	out            []byte
	workMin        uint64
	workMax        uint64
	histHas        bool
	hist           uint64
}

func (d *driver) call(a callArgs) callObs {
	d.calls++
	d.w8('C')
	var pre uint8
	if a.preDrain >= 0 {
		pre |= 1
	}
	if a.preCompact {
		pre |= 2
	}
	d.w8(pre)
	if a.preDrain >= 0 {
		d.w32(uint32(a.preDrain))
	}
	if a.preCompact {
		d.w32(uint32(a.retain))
		if a.relocate {
			d.w8(1)
		} else {
			d.w8(0)
		}
	}
	d.w32(uint32(len(a.src)))
	d.in.Write(a.src)
	d.w32(uint32(a.srcRi))
	if a.closed {
		d.w8(1)
	} else {
		d.w8(0)
	}
	d.w64(a.pos)
	d.w32(uint32(a.dstSpace))
	d.w32(uint32(a.workLen))
	d.w32(uint32(a.argShape))
	d.flush('C')
	var o callObs
	o.drained = int(d.r32())
	o.moved = int(d.r32())
	o.status = d.rstatus()
	o.srcRi = int(d.r32())
	o.srcOK = d.r8() != 0
	o.dstWiBefore = int(d.r32())
	o.dstWiAfter = int(d.r32())
	o.dstRi = int(d.r32())
	o.dstPos = d.r64()
	o.dstClosed = d.r8() != 0
	o.dstPrefixOK = d.r8() != 0
	o.dstLen = int(d.r32())
	o.out = d.rbytes(int(d.r32()))
	o.workMin = d.r64()
	o.workMax = d.r64()
	o.histHas = d.r8() != 0
	o.hist = d.r64()
	o.mallocs, o.frees = int(int32(d.r32())), int(int32(d.r32()))
	return o
}

func (d *driver) query() (workMin, workMax uint64, histHas bool, hist uint64) {
	d.w8('W')
	d.flush('W')
	workMin = d.r64()
	workMax = d.r64()
	histHas = d.r8() != 0
	hist = d.r64()
	return
}

func (d *driver) drain(k int) int {
	d.w8('D')
	d.w32(uint32(k))
	d.flush('D')
	return int(d.r32())
}

func (d *driver) compact(retain int, relocate bool) int {
	d.w8('K')
	d.w32(uint32(retain))
	if relocate {
		d.w8(1)
	} else {
		d.w8(0)
	}
	d.flush('K')
	return int(d.r32())
}

// Status classes, from doc/note/statuses.md: "" ok, '@' note, '$' suspension,
// '#' error.
func isSuspension(s string) bool { return strings.HasPrefix(s, "$") }
func isError(s string) bool      { return strings.HasPrefix(s, "#") }
func isNote(s string) bool       { return strings.HasPrefix(s, "@") }

const (
	suspShortRead    = "$base: short read"
	suspShortWrite   = "$base: short write"
	suspShortWorkbuf = "$base: short workbuf"
)

// ---- hashers ----

type hashPiece struct {
	align int
	data  []byte
}

// hash runs one hasher object over the pieces: the status of initialize, then
// the value returned by every update call and the final checksum (32 bytes
// each, little-endian, zero-padded).
func (d *driver) hash(algo, fill int, seed, flags uint32, pieces []hashPiece) (status string, vals [][32]byte) {
	d.w8('H')
	d.w8(uint8(algo))
	d.w8(uint8(fill))
	d.w32(seed)
	d.w32(flags)
	d.w32(uint32(len(pieces)))
	for _, p := range pieces {
		d.w8(uint8(p.align))
		d.w32(uint32(len(p.data)))
		d.in.Write(p.data)
	}
	d.flush('H')
	status = d.rstatus()
	if status != "" {
		return status, nil
	}
	for i := 0; i <= len(pieces); i++ {
		var v [32]byte
		copy(v[:], d.rbytes(32))
		vals = append(vals, v)
	}
	return status, vals
}
