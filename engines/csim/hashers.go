package main

// C07, hashers: "every Wuffs checksum or hash (CRC-32, CRC-64, Adler-32,
// SHA-256) of a byte string equals the reference value however the bytes are
// split across update calls". The simulated dimension is the schedule of update
// calls: how the bytes are partitioned (empty pieces, one-byte pieces, pieces
// around the SIMD block sizes), at which misalignment each piece sits in
// memory, over which prior memory contents the object was initialised, and
// which build (SIMD paths or portable) executes it. The reference is Go's
// hash/crc32, hash/adler32, hash/crc64 and crypto/sha256, compared after EVERY
// update call (the value an update returns is the hash of the prefix), not
// only at the end. xxhash32 / xxhash64 have no independent reference here:
// for them the split run is compared with a single-update run.

import (
	"crypto/sha256"
	"encoding/binary"
	"fmt"
	"hash"
	"hash/adler32"
	"hash/crc32"
	"hash/crc64"
	"strings"

	"verif/sim"
)

var hashNames = []string{"crc32", "adler32", "crc64", "sha256", "xxhash32", "xxhash64"}

func refHasher(algo int) hash.Hash {
	switch algo {
	case 0:
		return crc32.NewIEEE()
	case 1:
		return adler32.New()
	case 2:
		return crc64.New(crc64.MakeTable(crc64.ECMA))
	case 3:
		return sha256.New()
	}
	return nil
}

// refValue renders the reference digest the way the driver reports values.
func refValue(algo int, h hash.Hash) [32]byte {
	var v [32]byte
	sum := h.Sum(nil)
	switch algo {
	case 0, 1:
		binary.LittleEndian.PutUint32(v[:], binary.BigEndian.Uint32(sum))
	case 2:
		binary.LittleEndian.PutUint64(v[:], binary.BigEndian.Uint64(sum))
	case 3:
		// bitvec256: elements_u64[3] holds the most significant bits
		for k := 0; k < 4; k++ {
			binary.LittleEndian.PutUint64(v[8*k:], binary.BigEndian.Uint64(sum[8*(3-k):]))
		}
	}
	return v
}

func runC07Hashers(t *sim.Tape, opt sim.RunOpt) *sim.Outcome {
	o := &sim.Outcome{}
	algo := t.Pick(3, 3, 3, 3, 1, 1)
	// payload: lengths around the SIMD block sizes are favoured
	var n int
	switch t.Pick(3, 3, 2, 2) {
	case 0:
		n = t.Draw(70)
	case 1:
		n = []int{15, 16, 17, 31, 32, 33, 63, 64, 65, 127, 128, 129, 255, 256, 257, 511, 512, 513}[t.Draw(18)] + t.Draw(3) - 1
	case 2:
		n = t.Draw(5000)
	default:
		n = 5000 + t.Draw(60000)
	}
	payload := t.Bytes(n, t.Draw(6))
	// the schedule of update calls (a per-run policy, not per-piece coin flips)
	policy := t.Pick(2, 3, 2, 2, 2)
	var pieces []hashPiece
	rest := payload
	alignPolicy := t.Pick(2, 2, 1) // 0: always aligned, 1: drawn per piece, 2: always odd
	for len(rest) > 0 || len(pieces) == 0 {
		var k int
		switch policy {
		case 0: // everything at once
			k = len(rest)
		case 1: // small pieces
			k = t.Draw(9)
		case 2: // around block sizes
			k = []int{1, 15, 16, 17, 31, 32, 33, 63, 64, 65, 128}[t.Draw(11)]
		case 3: // halves
			k = (len(rest) + 1) / 2
			if len(pieces) > 6 {
				k = len(rest)
			}
		default: // one big piece between slivers
			if len(pieces)%3 == 1 {
				k = len(rest) * 3 / 4
			} else {
				k = t.Draw(4)
			}
		}
		if k > len(rest) {
			k = len(rest)
		}
		if len(pieces) > 300 {
			k = len(rest)
		}
		al := 0
		switch alignPolicy {
		case 1:
			al = t.Draw(32)
		case 2:
			al = 1 + 2*t.Draw(8)
		}
		pieces = append(pieces, hashPiece{al, rest[:k]})
		rest = rest[k:]
		if len(payload) == 0 {
			break
		}
	}
	variant := []string{"asan", "asan", "plain", "asan_nosimd"}[t.Draw(4)]
	fill := t.Draw(3)
	flags := uint32(0)
	if fill == 0 && t.Bool() {
		flags = initAlreadyZeroed
	} else if t.Chance(1, 3) {
		flags = initLeaveBuffersUninit
	}
	seed := uint32(t.Draw(1 << 20))
	var lens []string
	for _, p := range pieces {
		lens = append(lens, fmt.Sprintf("%d@%d", len(p.data), p.align))
	}
	if len(lens) > 24 {
		lens = append(lens[:24], fmt.Sprintf("...(%d pieces)", len(pieces)))
	}
	where := fmt.Sprintf("hasher %s, %d bytes in %d update calls [%s], build %s, object memory pre-fill %d, initialize flags %#x", hashNames[algo], len(payload), len(pieces), strings.Join(lens, " "), variant, fill, flags)
	o.Sample = where
	fp := sim.NewFP()
	fp.AddStr(where)
	fp.AddStr(string(payload))
	o.FP = fp.Sum()
	o.Nontrivial = len(payload) > 0
	o.Probe("hasher_" + hashNames[algo])
	o.Probe("hasher_build_" + variant)
	o.ProbeN("hasher_update_calls", int64(len(pieces)))
	var status string
	var vals [][32]byte
	var ok bool
	guard(o, func() string { return where }, func() {
		status, vals = getDriver(opt, variant).hash(algo, fill, seed, flags, pieces)
		ok = true
	})
	if !ok {
		return o
	}
	if status != "" {
		o.Fail("hasher_initialize_failed", "hasher_initialize_failed:"+hashNames[algo], "initialize returned %q; %s", status, where)
		return o
	}
	if ref := refHasher(algo); ref != nil {
		for i, p := range pieces {
			ref.Write(p.data)
			if want := refValue(algo, ref); vals[i] != want {
				o.Fail("hash_differs_from_reference", "hash_differs_from_reference:"+hashNames[algo],
					"after update call %d of %d the hasher returned %x, the reference value of the %d-byte prefix is %x; %s", i+1, len(pieces), vals[i], hashedSoFar(pieces, i), want, where)
				return o
			}
		}
		if want := refValue(algo, ref); vals[len(pieces)] != want {
			o.Fail("hash_differs_from_reference", "hash_differs_from_reference:"+hashNames[algo]+":checksum",
				"the final checksum is %x, the reference value is %x; %s", vals[len(pieces)], want, where)
			return o
		}
		o.Probe("hash_equals_reference")
		return o
	}
	// no independent reference: the split run against a single update
	var one [][32]byte
	ok = false
	guard(o, func() string { return where + " (single-update twin)" }, func() {
		_, one = getDriver(opt, variant).hash(algo, 0, 0, 0, []hashPiece{{0, payload}})
		ok = true
	})
	if !ok {
		return o
	}
	if len(one) != 2 || vals[len(pieces)] != one[1] {
		o.Fail("hash_depends_on_split", "hash_depends_on_split:"+hashNames[algo], "the checksum over %d update calls is %x, over one update call %x; %s", len(pieces), vals[len(pieces)], one[len(one)-1], where)
		return o
	}
	o.Probe("hash_independent_of_split")
	return o
}

func hashedSoFar(pieces []hashPiece, i int) int {
	n := 0
	for k := 0; k <= i; k++ {
		n += len(pieces[k].data)
	}
	return n
}
