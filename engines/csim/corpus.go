package main

// Corpus for engine C: payloads encoded at check time by encoders that are
// independent of Wuffs (Go's compress/* packages, the system bzip2 and xz
// binaries), plus the repository's own test/data files by extension. The
// payload x encoder-setting axis is ordinary seeded generation; the simulated
// dimension is how the resulting stream is delivered (run.go).

import (
	"bytes"
	"compress/flate"
	"compress/gzip"
	"compress/lzw"
	"compress/zlib"
	"fmt"
	"os"
	"os/exec"
	"path/filepath"
	"sort"
	"strings"

	"verif/sim"
)

type stream struct {
	kind    int    // index into xformNames
	desc    string // how it was made
	data    []byte // the encoded stream
	payload []byte // the original bytes; nil when unknown (repository test files)
	valid   bool   // produced by a reference encoder and not damaged
}

// external encoder results are cached per process (exec costs milliseconds).
var extCache = map[string][]byte{}

func runTool(key string, in []byte, name string, args ...string) ([]byte, error) {
	if b, ok := extCache[key]; ok {
		return b, nil
	}
	cmd := exec.Command(name, args...)
	cmd.Stdin = bytes.NewReader(in)
	var out, errb bytes.Buffer
	cmd.Stdout, cmd.Stderr = &out, &errb
	if err := cmd.Run(); err != nil {
		return nil, fmt.Errorf("%s %v: %v: %s", name, args, err, errb.String())
	}
	if len(extCache) > 64 {
		extCache = map[string][]byte{}
	}
	extCache[key] = out.Bytes()
	return out.Bytes(), nil
}

var haveTool = map[string]bool{}

func toolPresent(name string) bool {
	if v, ok := haveTool[name]; ok {
		return v
	}
	_, err := exec.LookPath(name)
	haveTool[name] = err == nil
	return err == nil
}

// testData lists /repo/test/data files per transformer kind (by extension).
var testData map[int][]string

func loadTestData(repo string) {
	if testData != nil {
		return
	}
	testData = map[int][]string{}
	ext := map[string]int{".gz": xformKind("gzip"), ".zlib": xformKind("zlib"), ".deflate": xformKind("deflate"),
		".bz2": xformKind("bzip2"), ".xz": xformKind("xz"), ".lzma": xformKind("lzma"), ".lz": xformKind("lzip")}
	ents, err := os.ReadDir(filepath.Join(repo, "test", "data"))
	if err != nil {
		return
	}
	for _, e := range ents {
		if e.IsDir() {
			continue
		}
		if k, ok := ext[filepath.Ext(e.Name())]; ok {
			if fi, err := e.Info(); err == nil && fi.Size() <= 1<<20 {
				testData[k] = append(testData[k], filepath.Join(repo, "test", "data", e.Name()))
			}
		}
	}
	for k := range testData {
		sort.Strings(testData[k])
	}
}

// drawStream draws (decoder, payload, encoder settings) and encodes. maxLen
// bounds the payload.
func drawStream(t *sim.Tape, repo string, maxLen int, allowTestData bool) (*stream, error) {
	loadTestData(repo)
	kinds := []string{"deflate", "zlib", "gzip", "lzw", "bzip2", "xz", "lzma"}
	name := kinds[t.Pick(4, 3, 4, 3, 2, 2, 2)]
	if (name == "bzip2" && !toolPresent("bzip2")) || ((name == "xz" || name == "lzma") && !toolPresent("xz")) {
		name = "gzip"
	}
	k := xformKind(name)
	if allowTestData && len(testData[k]) > 0 && t.Chance(1, 5) {
		p := testData[k][t.Draw(len(testData[k]))]
		b, err := os.ReadFile(p)
		if err == nil {
			return &stream{kind: k, desc: "test/data/" + filepath.Base(p), data: b}, nil
		}
	}
	class := []int{sim.PayText, sim.PayRandom, sim.PayRepeat, sim.PayZeroHeavy, sim.PayZero, sim.PayFF}[t.Pick(4, 3, 3, 2, 1, 1)]
	n := t.Size(maxLen)
	if t.Chance(1, 10) && maxLen >= 40000 {
		n = 32768 + t.Draw(maxLen-32768+1) // beyond the 32 KiB window
	}
	seed := uint32(t.Draw(1 << 30))
	payload := sim.GenBytes(uint64(seed), n, class)
	s := &stream{kind: k, payload: payload, valid: true}
	pd := fmt.Sprintf("payload(class%d,len%d,seed%d)", class, n, seed)
	var buf bytes.Buffer
	switch name {
	case "deflate", "zlib", "gzip":
		level := []int{flate.DefaultCompression, flate.NoCompression, flate.BestSpeed, flate.BestCompression, flate.HuffmanOnly, 3, 6}[t.Draw(7)]
		// Flush patterns create multi-block streams with stored/fixed/dynamic
		// blocks and empty stored blocks at the flush points.
		flushEvery := 0
		if t.Chance(1, 3) && n > 0 {
			flushEvery = 1 + t.Size(n)
		}
		var w interface {
			Write([]byte) (int, error)
			Flush() error
			Close() error
		}
		var err error
		switch name {
		case "deflate":
			w, err = flate.NewWriter(&buf, level)
		case "zlib":
			w, err = zlib.NewWriterLevel(&buf, level)
		default:
			w, err = gzip.NewWriterLevel(&buf, level)
		}
		if err != nil {
			return nil, err
		}
		for off := 0; off < n; {
			m := n - off
			if flushEvery > 0 && m > flushEvery {
				m = flushEvery
			}
			w.Write(payload[off : off+m])
			off += m
			if flushEvery > 0 && off < n {
				w.Flush()
			}
		}
		w.Close()
		s.desc = fmt.Sprintf("go %s level=%d flushEvery=%d %s", name, level, flushEvery, pd)
	case "lzw":
		// Wuffs' lzw decoder is the GIF flavour: LSB first, literal width 8 by
		// default.
		w := lzw.NewWriter(&buf, lzw.LSB, 8)
		w.Write(payload)
		w.Close()
		s.desc = "go lzw LSB litwidth=8 " + pd
	case "bzip2":
		lvl := fmt.Sprintf("-%d", 1+t.Draw(9))
		b, err := runTool("bzip2"+lvl+pd, payload, "bzip2", "-c", lvl)
		if err != nil {
			return nil, err
		}
		buf.Write(b)
		s.desc = "bzip2 " + lvl + " " + pd
	case "xz", "lzma":
		lvl := fmt.Sprintf("-%d", t.Draw(7))
		args := []string{"-c", lvl, "--format=" + name}
		if name == "xz" {
			args = append(args, "--check="+[]string{"crc32", "none", "crc64", "sha256"}[t.Draw(4)])
		}
		b, err := runTool(name+strings.Join(args, " ")+pd, payload, "xz", args...)
		if err != nil {
			return nil, err
		}
		buf.Write(b)
		s.desc = "xz " + strings.Join(args[1:], " ") + " " + pd
	}
	s.data = append([]byte(nil), buf.Bytes()...)
	return s, nil
}

// damage applies 1..3 stream faults (identically for every schedule compared).
func damage(t *sim.Tape, s *stream, o *sim.Outcome) {
	n := 1 + t.Pick(3, 2, 1)
	d := append([]byte(nil), s.data...)
	var descs []string
	for i := 0; i < n && len(d) > 0; i++ {
		switch t.Draw(6) {
		case 0:
			k := t.Draw(len(d))
			d = d[:k]
			descs = append(descs, fmt.Sprintf("truncate->%d", k))
			o.Fault("stream_truncated")
		case 1:
			k := t.Draw(len(d))
			d[k] ^= 1 << uint(t.Draw(8))
			descs = append(descs, fmt.Sprintf("bitflip@%d", k))
			o.Fault("stream_bitflip")
		case 2:
			k := t.Draw(len(d))
			d[k] = byte(t.Draw(256))
			descs = append(descs, fmt.Sprintf("byte@%d", k))
			o.Fault("stream_byte")
		case 3:
			k := t.Draw(len(d))
			l := 1 + t.Size(32)
			if k+l > len(d) {
				l = len(d) - k
			}
			d = append(d[:k], d[k+l:]...)
			descs = append(descs, fmt.Sprintf("delete[%d,+%d)", k, l))
			o.Fault("stream_span_deleted")
		case 4:
			k := t.Draw(len(d))
			l := 1 + t.Size(32)
			if k+l > len(d) {
				l = len(d) - k
			}
			d = append(append(append([]byte(nil), d[:k+l]...), d[k:k+l]...), d[k+l:]...)
			descs = append(descs, fmt.Sprintf("dup[%d,+%d)", k, l))
			o.Fault("stream_span_duplicated")
		case 5:
			// Splice: the head of this stream, then itself again.
			k := t.Draw(len(d))
			d = append(append([]byte(nil), d[:k]...), s.data...)
			descs = append(descs, fmt.Sprintf("splice@%d", k))
			o.Fault("stream_spliced")
		}
	}
	s.data = d
	s.valid = false
	s.payload = nil
	s.desc += " DAMAGED(" + strings.Join(descs, ",") + ")"
}
