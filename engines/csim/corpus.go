package main

// Corpus for engine C: payloads encoded at check time by encoders that are
// independent of Wuffs (Go's compress/* packages, the system bzip2 and xz
// binaries), plus the repository's own test/data files by extension. The
// payload x encoder-setting axis is ordinary seeded generation; the simulated
// dimension is how the resulting stream is delivered (run.go).

import (
	"bytes"
	"compress/flate"
	"compress/gzip"
	"compress/lzw"
	"compress/zlib"
	"fmt"
	"os"
	"os/exec"
	"path/filepath"
	"sort"
	"strings"

	"verif/sim"
)

type stream struct {
	kind    int    // index into xformNames
	desc    string // how it was made
	data    []byte // the encoded stream
	tag     string // a stream feature that known findings are keyed on ("bcj_filtered", ...)
	payload []byte // the original bytes; nil when unknown (repository test files)
	valid   bool   // produced by a reference encoder and not damaged
}

// external encoder results are cached per process (exec costs milliseconds).
var extCache = map[string][]byte{}

func runTool(key string, in []byte, name string, args ...string) ([]byte, error) {
	if b, ok := extCache[key]; ok {
		return b, nil
	}
	cmd := exec.Command(name, args...)
	cmd.Stdin = bytes.NewReader(in)
	var out, errb bytes.Buffer
	cmd.Stdout, cmd.Stderr = &out, &errb
	if err := cmd.Run(); err != nil {
		return nil, fmt.Errorf("%s %v: %v: %s", name, args, err, errb.String())
	}
	if len(extCache) > 64 {
		extCache = map[string][]byte{}
	}
	extCache[key] = out.Bytes()
	return out.Bytes(), nil
}

var haveTool = map[string]bool{}

func toolPresent(name string) bool {
	if v, ok := haveTool[name]; ok {
		return v
	}
	_, err := exec.LookPath(name)
	haveTool[name] = err == nil
	return err == nil
}

// testDataDirs returns test/data and its artificial-* subdirectories.
func testDataDirs(repo string) []string {
	root := filepath.Join(repo, "test", "data")
	dirs := []string{root}
	if ents, err := os.ReadDir(root); err == nil {
		for _, e := range ents {
			if e.IsDir() && strings.HasPrefix(e.Name(), "artificial-") {
				dirs = append(dirs, filepath.Join(root, e.Name()))
			}
		}
	}
	sort.Strings(dirs)
	return dirs
}

// testData lists /repo/test/data files per transformer kind (by extension).
var testData map[int][]string

func loadTestData(repo string) {
	if testData != nil {
		return
	}
	testData = map[int][]string{}
	ext := map[string]int{".gz": xformKind("gzip"), ".zlib": xformKind("zlib"), ".deflate": xformKind("deflate"),
		".bz2": xformKind("bzip2"), ".xz": xformKind("xz"), ".lzma": xformKind("lzma"), ".lz": xformKind("lzip")}
	// The top level, and the artificial-* directories: hand-made edge cases
	// (degenerate Huffman tables, maximum distances, back-references crossing
	// blocks, filter chains...).
	for _, dir := range testDataDirs(repo) {
		ents, err := os.ReadDir(dir)
		if err != nil {
			continue
		}
		for _, e := range ents {
			if e.IsDir() {
				continue
			}
			if k, ok := ext[filepath.Ext(e.Name())]; ok {
				if fi, err := e.Info(); err == nil && fi.Size() <= 1<<20 {
					testData[k] = append(testData[k], filepath.Join(dir, e.Name()))
				}
			}
		}
	}
	for k := range testData {
		sort.Strings(testData[k])
	}
}

// drawStream draws (decoder, payload, encoder settings) and encodes. maxLen
// bounds the payload.
func drawStream(t *sim.Tape, repo string, maxLen int, allowTestData bool) (*stream, error) {
	loadTestData(repo)
	kinds := []string{"deflate", "zlib", "gzip", "lzw", "bzip2", "xz", "lzma"}
	name := kinds[t.Pick(4, 3, 4, 3, 2, 2, 2)]
	if (name == "bzip2" && !toolPresent("bzip2")) || ((name == "xz" || name == "lzma") && !toolPresent("xz")) {
		name = "gzip"
	}
	k := xformKind(name)
	if allowTestData && len(testData[k]) > 0 && t.Chance(1, 4) {
		p := testData[k][t.Draw(len(testData[k]))]
		b, err := os.ReadFile(p)
		if err == nil {
			st := &stream{kind: k, desc: "test/data/" + strings.TrimPrefix(p, filepath.Join(repo, "test", "data")+"/"), data: b}
			if name == "xz" {
				st.tag = xzFilterTag(b)
			}
			return st, nil
		}
	}
	class := []int{sim.PayText, sim.PayRandom, sim.PayRepeat, sim.PayZeroHeavy, sim.PayZero, sim.PayFF}[t.Pick(4, 3, 3, 2, 1, 1)]
	n := t.Size(maxLen)
	if t.Chance(1, 10) && maxLen >= 40000 {
		n = 32768 + t.Draw(maxLen-32768+1) // beyond the 32 KiB window
	}
	seed := uint32(t.Draw(1 << 30))
	payload := sim.GenBytes(uint64(seed), n, class)
	pd := fmt.Sprintf("payload(class%d,len%d,seed%d)", class, n, seed)
	// Composite payloads: several segments of different classes, so that the
	// statistics (alphabet, repetitiveness) change inside one stream - what a
	// tar of a binary plus some text looks like. For bzip2 at a small block
	// size the segments are large enough to span several blocks; the second
	// seeded mutant of wave 2 for C07 (stale symbol-presence bits across
	// blocks) needed a multi-block file whose alphabet shrinks and was missed
	// by single-class payloads.
	// (only where the caller allows large payloads: the every-split and
	// minimum-window modes ask for small streams and must get them)
	multiBlock := name == "bzip2" && maxLen >= 60000 && t.Chance(1, 3)
	if multiBlock || t.Chance(1, 5) {
		segs := 2 + t.Draw(3)
		payload = nil
		pd = "payload(composite"
		for i := 0; i < segs; i++ {
			c := []int{sim.PayRandom, sim.PayText, sim.PayRepeat, sim.PayZeroHeavy, sim.PayZero, sim.PayFF}[t.Pick(3, 4, 2, 2, 1, 1)]
			if multiBlock && i == 0 {
				c = sim.PayRandom // every byte value occurs in the first block(s)
			}
			l := t.Size(maxLen / segs)
			if multiBlock {
				l = 60000 + t.Draw(110000)
			}
			sd := uint32(t.Draw(1 << 30))
			payload = append(payload, sim.GenBytes(uint64(sd), l, c)...)
			pd += fmt.Sprintf(" class%d/len%d/seed%d", c, l, sd)
		}
		pd += ")"
		n = len(payload)
	}
	s := &stream{kind: k, payload: payload, valid: true}
	var buf bytes.Buffer
	switch name {
	case "deflate", "zlib", "gzip":
		level := []int{flate.DefaultCompression, flate.NoCompression, flate.BestSpeed, flate.BestCompression, flate.HuffmanOnly, 3, 6}[t.Draw(7)]
		// Flush patterns create multi-block streams with stored/fixed/dynamic
		// blocks and empty stored blocks at the flush points.
		flushEvery := 0
		if t.Chance(1, 3) && n > 0 {
			flushEvery = 1 + t.Size(n)
		}
		var w interface {
			Write([]byte) (int, error)
			Flush() error
			Close() error
		}
		var err error
		switch name {
		case "deflate":
			w, err = flate.NewWriter(&buf, level)
		case "zlib":
			w, err = zlib.NewWriterLevel(&buf, level)
		default:
			w, err = gzip.NewWriterLevel(&buf, level)
		}
		if err != nil {
			return nil, err
		}
		for off := 0; off < n; {
			m := n - off
			if flushEvery > 0 && m > flushEvery {
				m = flushEvery
			}
			w.Write(payload[off : off+m])
			off += m
			if flushEvery > 0 && off < n {
				w.Flush()
			}
		}
		w.Close()
		s.desc = fmt.Sprintf("go %s level=%d flushEvery=%d %s", name, level, flushEvery, pd)
	case "lzw":
		// Wuffs' lzw decoder is the GIF flavour: LSB first, literal width 8 by
		// default.
		w := lzw.NewWriter(&buf, lzw.LSB, 8)
		w.Write(payload)
		w.Close()
		s.desc = "go lzw LSB litwidth=8 " + pd
	case "bzip2":
		lvl := fmt.Sprintf("-%d", 1+t.Draw(9))
		if multiBlock {
			lvl = "-1" // 100 KB blocks
		}
		b, err := runTool("bzip2"+lvl+pd, payload, "bzip2", "-c", lvl)
		if err != nil {
			return nil, err
		}
		buf.Write(b)
		s.desc = "bzip2 " + lvl + " " + pd
	case "xz", "lzma":
		lvl := fmt.Sprintf("-%d", t.Draw(7))
		args := []string{"-c", lvl, "--format=" + name}
		if name == "xz" {
			args = append(args, "--check="+[]string{"crc32", "none", "crc64", "sha256"}[t.Draw(4)])
			// Filter chains (the decoder then runs LZMA2 into an internal buffer
			// and the BCJ/Delta filter from there into dst: different buffer
			// plumbing from a plain file) and several blocks per file. The
			// first seeded mutant of wave 2 for C03 was missed because no
			// generated xz file had a filter.
			if t.Chance(1, 2) {
				args = []string{"-c", "--format=xz", args[3]}
				nf := 1 + t.Pick(4, 2, 1)
				for i := 0; i < nf; i++ {
					if t.Chance(1, 3) {
						args = append(args, fmt.Sprintf("--delta=dist=%d", 1+t.Size(255)))
					} else {
						args = append(args, []string{"--x86", "--arm", "--armthumb", "--arm64", "--powerpc", "--ia64", "--sparc", "--riscv"}[t.Draw(8)])
					}
				}
				args = append(args, fmt.Sprintf("--lzma2=preset=%d", t.Draw(7)))
			}
			if t.Chance(1, 4) && n > 2000 {
				args = append(args, fmt.Sprintf("--block-size=%d", 1000+t.Size(n)))
			}
		}
		b, err := runTool(name+strings.Join(args, " ")+pd, payload, "xz", args...)
		if err != nil {
			return nil, err
		}
		buf.Write(b)
		s.desc = "xz " + strings.Join(args[1:], " ") + " " + pd
	}
	s.data = append([]byte(nil), buf.Bytes()...)
	if name == "xz" {
		s.tag = xzFilterTag(s.data)
	}
	return s, nil
}

// xzFilterTag reads the filter chain of the first block header of an .xz
// stream (format: 12-byte stream header, then the block header: size byte,
// flags byte whose low two bits are the number of filters minus one, optional
// sizes, then per filter an id, a property size and the properties, all
// multibyte integers) and names the chain, which known findings are keyed on.
func xzFilterTag(b []byte) string {
	if len(b) < 16 || string(b[:6]) != "\xfd7zXZ\x00" {
		return ""
	}
	p := 12
	size := (int(b[p]) + 1) * 4
	if b[p] == 0 || p+size > len(b) {
		return ""
	}
	hdr := b[p : p+size]
	flags := hdr[1]
	i := 2
	varint := func() (uint64, bool) {
		var v uint64
		for n := 0; n < 9 && i < len(hdr); n++ {
			c := hdr[i]
			i++
			v |= uint64(c&0x7F) << (7 * uint(n))
			if c&0x80 == 0 {
				return v, true
			}
		}
		return 0, false
	}
	if flags&0x40 != 0 {
		if _, ok := varint(); !ok {
			return ""
		}
	}
	if flags&0x80 != 0 {
		if _, ok := varint(); !ok {
			return ""
		}
	}
	var chain []string
	for f := 0; f <= int(flags&3); f++ {
		id, ok := varint()
		if !ok {
			break
		}
		n, ok := varint()
		if !ok {
			break
		}
		i += int(n)
		switch {
		case id >= 0x04 && id <= 0x0B:
			chain = append(chain, "bcj")
		case id == 0x03:
			// Consecutive Delta filters compose to one (and decode fine on
			// their own): the chain SHAPE is what matters for the key.
			if len(chain) == 0 || chain[len(chain)-1] != "delta" {
				chain = append(chain, "delta")
			}
		}
	}
	if len(chain) == 0 {
		return ""
	}
	// The non-final filter chain, in file order, repeated Deltas collapsed: "xzchain_bcj",
	// "xzchain_bcj+delta", "xzchain_delta", ... Different chains take different
	// paths through the decoder (and some are declined), so a known finding
	// names the chain it was observed with.
	return "xzchain_" + strings.Join(chain, "+")
}

// damage applies 1..3 stream faults (identically for every schedule compared).
func damage(t *sim.Tape, s *stream, o *sim.Outcome) {
	n := 1 + t.Pick(3, 2, 1)
	d := append([]byte(nil), s.data...)
	var descs []string
	for i := 0; i < n && len(d) > 0; i++ {
		switch t.Draw(6) {
		case 0:
			k := t.Draw(len(d))
			d = d[:k]
			descs = append(descs, fmt.Sprintf("truncate->%d", k))
			o.Fault("stream_truncated")
		case 1:
			k := t.Draw(len(d))
			d[k] ^= 1 << uint(t.Draw(8))
			descs = append(descs, fmt.Sprintf("bitflip@%d", k))
			o.Fault("stream_bitflip")
		case 2:
			k := t.Draw(len(d))
			d[k] = byte(t.Draw(256))
			descs = append(descs, fmt.Sprintf("byte@%d", k))
			o.Fault("stream_byte")
		case 3:
			k := t.Draw(len(d))
			l := 1 + t.Size(32)
			if k+l > len(d) {
				l = len(d) - k
			}
			d = append(d[:k], d[k+l:]...)
			descs = append(descs, fmt.Sprintf("delete[%d,+%d)", k, l))
			o.Fault("stream_span_deleted")
		case 4:
			k := t.Draw(len(d))
			l := 1 + t.Size(32)
			if k+l > len(d) {
				l = len(d) - k
			}
			d = append(append(append([]byte(nil), d[:k+l]...), d[k:k+l]...), d[k+l:]...)
			descs = append(descs, fmt.Sprintf("dup[%d,+%d)", k, l))
			o.Fault("stream_span_duplicated")
		case 5:
			// Splice: the head of this stream, then itself again.
			k := t.Draw(len(d))
			d = append(append([]byte(nil), d[:k]...), s.data...)
			descs = append(descs, fmt.Sprintf("splice@%d", k))
			o.Fault("stream_spliced")
		}
	}
	s.data = d
	s.valid = false
	s.payload = nil
	s.desc += " DAMAGED(" + strings.Join(descs, ",") + ")"
}
