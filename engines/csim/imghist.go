package main

// C08, image decoders: "image decoders reject out-of-order calls with 'bad
// call sequence'", and the general protocol clauses (a failed coroutine call
// disables the object; calling a different coroutine while one is suspended
// is an error). One run = one history of 3-10 calls on one image decoder over a
// VALID file, checked call by call against an explicit model written from
// doc/std/image-decoders-call-sequence.md and the property text only:
//
//   - DIC (decode_image_config) is illegal after any completed DIC, DFC or DF:
//     "#base: bad call sequence".
//   - restart_frame is legal only once the image configuration has been decoded:
//     on a fresh decoder it returns "#base: bad call sequence".
//   - tell_me_more is illegal unless the decoder reported metadata (the history
//     never opts in): it must be rejected with an error. Which error is not
//     demanded: decoders without any metadata answer "#base: no more
//     information" instead of "#base: bad call sequence", and the property only
//     asks that out-of-order calls be rejected.
//   - DFC / DF imply the calls they skip: from a fresh decoder or at any later
//     stage they must NOT return "#base: bad call sequence".
//   - calling a different coroutine while one is suspended:
//     "#base: interleaved coroutine calls".
//   - after any coroutine call that returned an error, every status-returning
//     call returns "#base: disabled by previous error".
// Where the documents say nothing (after a failing non-coroutine restart_frame,
// after "@base: end of data") the model makes no prediction.

import (
	"fmt"
	"strings"

	"verif/sim"
)

const (
	ihFresh    = iota // no call completed yet
	ihStarted         // at least one DIC / DFC / DF completed
	ihDisabled        // a coroutine call returned an error
	ihNoClaim         // the documents make no prediction from here on
)

var imgMethodNames = []string{"decode_image_config", "decode_frame_config", "decode_frame", "restart_frame", "tell_me_more"}

func runC08Images(t *sim.Tape, opt sim.RunOpt) *sim.Outcome {
	o := &sim.Outcome{}
	f := drawImage(t, opt.Extra["repo"], t.Chance(2, 3))
	d := getDriver(opt, "asan")
	fill := t.Draw(3)
	// per-run delivery policy: everything at once, or so little at first that
	// the first coroutine suspends
	starve := t.Chance(1, 2)
	first := len(f.data)
	if starve {
		first = t.Draw(9)
		if first > len(f.data) {
			first = len(f.data)
		}
	}
	var hist []string
	where := func() string {
		return fmt.Sprintf("%s image decoder; file: %s (%d bytes); object memory pre-fill %d; first delivery %d bytes; history: %s", imgNames[f.kind], f.desc, len(f.data), fill, first, strings.Join(hist, "; "))
	}
	state := ihFresh
	suspended := -1 // the coroutine method that is suspended, or -1
	delivered, consumed := first, 0
	steps := 3 + t.Draw(8)
	o.Nontrivial = true
	guard(o, where, func() {
		if st, _ := d.imgNew(f.kind, fill, uint32(t.Draw(1<<20)), 0); st != "" {
			o.Fail("initialize_failed", "initialize_failed:"+imgNames[f.kind], "initialize returned %q; %s", st, where())
			return
		}
		for i := 0; i < steps && o.Class == ""; i++ {
			var m int
			if suspended >= 0 && t.Chance(1, 2) {
				m = suspended // resume, the normal thing to do
				if t.Chance(2, 3) {
					delivered = len(f.data)
				}
			} else {
				m = t.Pick(3, 4, 4, 2, 2)
			}
			closed := delivered == len(f.data)
			obs := d.imgCallRestart(m, f.data[:delivered], consumed, closed, 0, t.Draw(3), 0, 0)
			if obs.srcRi >= consumed && obs.srcRi <= delivered {
				consumed = obs.srcRi
			}
			s := obs.status
			hist = append(hist, fmt.Sprintf("%s -> %q", imgMethodNames[m], s))
			o.Probe("image_call_" + imgMethodNames[m])
			isCoro := m != 3
			want, mustNot := "", ""
			wantError := false
			switch {
			case state == ihNoClaim:
			case state == ihDisabled:
				want = "#base: disabled by previous error"
			case suspended >= 0 && isCoro && m != suspended:
				want = "#base: interleaved coroutine calls"
			case suspended >= 0 && !isCoro:
				state = ihNoClaim // restart_frame while suspended: not described
			case m == 0 && state == ihStarted && suspended < 0:
				want = "#base: bad call sequence"
			case m == 3 && state == ihFresh:
				want = "#base: bad call sequence"
			case m == 4:
				wantError = true
			case m == 1 || m == 2:
				mustNot = "#base: bad call sequence"
			}
			if want != "" {
				o.Probe("image_protocol_prediction: " + strings.TrimPrefix(want, "#base: "))
				if s != want {
					o.Fail("call_protocol", "call_protocol:image:"+strings.ReplaceAll(strings.TrimPrefix(want, "#base: "), " ", "_")+":"+imgNames[f.kind],
						"call %d (%s) returned %q, the documented protocol says %q; %s", i+1, imgMethodNames[m], s, want, where())
					return
				}
			}
			if wantError {
				o.Probe("image_protocol_prediction: tell_me_more rejected")
				if !isError(s) {
					o.Fail("call_protocol", "call_protocol:image:tell_me_more_not_rejected:"+imgNames[f.kind],
						"call %d (tell_me_more without any reported metadata) returned %q, not an error; %s", i+1, s, where())
					return
				}
			}
			if mustNot != "" && s == mustNot {
				o.Fail("call_protocol", "call_protocol:image:unexpected_bad_call_sequence:"+imgNames[f.kind],
					"call %d (%s) returned %q although decode_frame_config / decode_frame imply the calls they skip; %s", i+1, imgMethodNames[m], s, where())
				return
			}
			if !obs.srcOK {
				o.Fail("io_buffer_contract", "io_buffer_contract:"+imgNames[f.kind], "call %d (%s): the source buffer's bytes or its wi/pos/closed/ptr/len were modified; %s", i+1, imgMethodNames[m], where())
				return
			}
			// ---- model transition ----
			switch {
			case state == ihNoClaim:
			case isError(s) && isCoro:
				state, suspended = ihDisabled, -1
			case isError(s): // restart_frame failed: nothing is said about afterwards
				state = ihNoClaim
			case isSuspension(s):
				if s != "$base: short read" {
					state = ihNoClaim
				} else {
					suspended = m
					if t.Chance(1, 2) {
						delivered = len(f.data)
					}
				}
			case s == "@base: end of data":
				state, suspended = ihNoClaim, -1
			case s == "" && m <= 2:
				state, suspended = ihStarted, -1
			case s == "":
				suspended = -1
			default: // another note (I/O redirect, metadata reported...)
				state, suspended = ihNoClaim, -1
			}
		}
	})
	fp := sim.NewFP()
	fp.AddStr(where())
	o.FP = fp.Sum()
	o.Sample = where()
	o.Steps += int64(len(hist))
	return o
}
