package simrt

// Differential test of the simulated channel runtime.
//
// Random tiny "channel programs" (2-3 goroutines, 1-3 operations each, 1-2
// channels of capacity 0-2; operations: send a unique value, receive, select
// over 2 cases with or without default, close) are executed three ways:
//
//	reference  an exhaustive explicit-state exploration of the program under the
//	           Go specification's channel rules, written independently of simrt
//	           (immutable states, FIFO queues, rendezvous only when cap == 0);
//	native     real goroutines and real channels (reflect.Select for selects),
//	           many times, GOMAXPROCS varied, with random yields;
//	simrt      the runtime under test, driven through EVERY tape by a depth-first
//	           search over its choice points (a stateless model checker for
//	           these tiny programs), plus sampled runs of the other policies.
//
// Required:
//
//	simrt  subset-of reference   (simrt never shows a behaviour Go forbids - the
//	                              direction that would be a FALSE ALARM in C14)
//	native subset-of reference   (keeps the reference honest against the real
//	                              runtime instead of against its author)
//	reference subset-of simrt    (simrt can reach every legal behaviour: exact,
//	                              because the schedules are enumerated, not
//	                              sampled - an earlier sampled version failed
//	                              on a legal outcome of probability ~2e-5)
//
// An outcome is the per-goroutine list of operation results plus, for each
// goroutine, whether it finished, panicked, or is blocked forever at which pc.

import (
	"fmt"
	"reflect"
	"runtime"
	"sort"
	"strings"
	"sync"
	"testing"
	"time"
)

type tOpKind int

const (
	tSend tOpKind = iota
	tRecv
	tSelect
	tClose
)

type tCase struct {
	send bool
	ch   int
	val  int
}

type tOp struct {
	kind       tOpKind
	ch         int
	val        int
	cases      []tCase
	hasDefault bool
}

type tProg struct {
	caps []int
	gs   [][]tOp
}

func (p tProg) String() string {
	var sb strings.Builder
	fmt.Fprintf(&sb, "caps=%v", p.caps)
	for i, g := range p.gs {
		fmt.Fprintf(&sb, " | g%d:", i)
		for _, o := range g {
			switch o.kind {
			case tSend:
				fmt.Fprintf(&sb, " send(c%d,%d)", o.ch, o.val)
			case tRecv:
				fmt.Fprintf(&sb, " recv(c%d)", o.ch)
			case tClose:
				fmt.Fprintf(&sb, " close(c%d)", o.ch)
			case tSelect:
				fmt.Fprintf(&sb, " select{")
				for _, c := range o.cases {
					if c.send {
						fmt.Fprintf(&sb, "send(c%d,%d);", c.ch, c.val)
					} else {
						fmt.Fprintf(&sb, "recv(c%d);", c.ch)
					}
				}
				if o.hasDefault {
					fmt.Fprintf(&sb, "default")
				}
				fmt.Fprintf(&sb, "}")
			}
		}
	}
	return sb.String()
}

type tRng uint64

func (r *tRng) n(n int) int {
	*r += 0x9E3779B97F4A7C15
	z := uint64(*r)
	z = (z ^ (z >> 30)) * 0xBF58476D1CE4E5B9
	z = (z ^ (z >> 27)) * 0x94D049BB133111EB
	z ^= z >> 31
	return int(z % uint64(n))
}

func genProg(seed uint64) tProg {
	r := tRng(seed*7919 + 13)
	p := tProg{}
	nch := 1 + r.n(2)
	for i := 0; i < nch; i++ {
		p.caps = append(p.caps, r.n(3))
	}
	ng := 2 + r.n(2)
	val := 0
	closed := make([]bool, nch) // at most one close per channel in the whole program
	for g := 0; g < ng; g++ {
		var ops []tOp
		for i, n := 0, 1+r.n(3); i < n; i++ {
			ch := r.n(nch)
			switch k := r.n(10); {
			case k < 4:
				val++
				ops = append(ops, tOp{kind: tSend, ch: ch, val: val})
			case k < 7:
				ops = append(ops, tOp{kind: tRecv, ch: ch})
			case k < 9:
				o := tOp{kind: tSelect, hasDefault: r.n(3) == 0}
				for c := 0; c < 2; c++ {
					cc := tCase{send: r.n(2) == 0, ch: r.n(nch)}
					if cc.send {
						val++
						cc.val = val
					}
					o.cases = append(o.cases, cc)
				}
				ops = append(ops, o)
			default:
				if !closed[ch] {
					closed[ch] = true
					ops = append(ops, tOp{kind: tClose, ch: ch})
				} else {
					ops = append(ops, tOp{kind: tRecv, ch: ch})
				}
			}
		}
		p.gs = append(p.gs, ops)
	}
	return p
}

// ---- reference: exhaustive exploration under the Go spec's rules ----
//
// Small-step semantics with an explicit distinction between a goroutine that
// has NOT YET ARRIVED at its current operation and one that has arrived and is
// WAITING in it (this distinction is what makes `default` reachable: a select
// takes default when no partner is *waiting* at that instant, and a partner
// that merely has not been scheduled yet is not waiting).
//
//	arrive(g)  g is live and not waiting. close: performed. Otherwise collect
//	           the alternatives that can proceed right now - send: channel
//	           closed (panic) / room in the buffer / cap==0 and some h WAITING
//	           in a receive of it; recv: buffer non-empty / closed / cap==0 and
//	           some h WAITING in a send of it. If any can proceed, exactly one
//	           of them happens (every choice is explored). Else default if
//	           present. Else g becomes waiting.
//	wake(g)    g is waiting and channel STATE (buffer, closed) now lets one of
//	           its alternatives proceed. (Unbuffered partners never reach this
//	           rule: the later arriver of a pair always finds the earlier one
//	           waiting.) Several waiting goroutines compete freely: the
//	           specification promises no order among them.

type refState struct {
	pc      []int    // per goroutine; -1 = panicked
	waiting []bool   // arrived at its communication op and blocked in it
	log     []string // per goroutine result log
	bufs    [][]int  // per channel FIFO
	closed  []bool
}

func (s refState) clone() refState {
	n := refState{pc: append([]int(nil), s.pc...), waiting: append([]bool(nil), s.waiting...),
		log: append([]string(nil), s.log...), closed: append([]bool(nil), s.closed...)}
	for _, b := range s.bufs {
		n.bufs = append(n.bufs, append([]int(nil), b...))
	}
	return n
}

func (s refState) key() string { return fmt.Sprint(s.pc, s.waiting, s.log, s.bufs, s.closed) }

func outcomeOf(p tProg, pc []int, log []string) string {
	parts := make([]string, len(p.gs))
	for g := range p.gs {
		st := "done"
		if pc[g] == -1 {
			st = "panicked"
		} else if pc[g] < len(p.gs[g]) {
			st = fmt.Sprintf("blocked@%d", pc[g])
		}
		parts[g] = fmt.Sprintf("g%d[%s]%s", g, log[g], st)
	}
	return strings.Join(parts, " ")
}

// alts lists the communication alternatives of goroutine g's current op.
func (p tProg) alts(g int, pc int) (cases []tCase, isSelect bool, hasDefault bool) {
	o := p.gs[g][pc]
	switch o.kind {
	case tSend:
		return []tCase{{true, o.ch, o.val}}, false, false
	case tRecv:
		return []tCase{{false, o.ch, 0}}, false, false
	case tSelect:
		return o.cases, true, o.hasDefault
	}
	return nil, false, false
}

func refOutcomes(p tProg) map[string]bool {
	out := map[string]bool{}
	seen := map[string]bool{}
	init := refState{pc: make([]int, len(p.gs)), waiting: make([]bool, len(p.gs)), log: make([]string, len(p.gs)), closed: make([]bool, len(p.caps))}
	for range p.caps {
		init.bufs = append(init.bufs, nil)
	}
	tag := func(isSel bool, i int) string {
		if isSel {
			return fmt.Sprintf("sel%d:", i)
		}
		return ""
	}
	var visit func(s refState)
	visit = func(s refState) {
		k := s.key()
		if seen[k] {
			return
		}
		seen[k] = true
		progressed := false
		live := func(g int) bool { return s.pc[g] >= 0 && s.pc[g] < len(p.gs[g]) }
		next := func(n refState) {
			progressed = true
			visit(n)
		}
		// stateMoves explores the alternatives of g that the channel STATE
		// alone enables; returns whether there was one.
		stateMoves := func(g int) bool {
			cases, isSel, _ := p.alts(g, s.pc[g])
			any := false
			for i, c := range cases {
				if c.send {
					switch {
					case s.closed[c.ch]:
						any = true
						n := s.clone()
						n.log[g] += tag(isSel, i) + "panic "
						n.pc[g], n.waiting[g] = -1, false
						next(n)
					case len(s.bufs[c.ch]) < p.caps[c.ch]:
						any = true
						n := s.clone()
						n.bufs[c.ch] = append(n.bufs[c.ch], c.val)
						n.log[g] += tag(isSel, i) + fmt.Sprintf("s%d ", c.ch)
						n.pc[g]++
						n.waiting[g] = false
						next(n)
					}
				} else {
					switch {
					case len(s.bufs[c.ch]) > 0:
						any = true
						n := s.clone()
						v := n.bufs[c.ch][0]
						n.bufs[c.ch] = n.bufs[c.ch][1:]
						n.log[g] += tag(isSel, i) + fmt.Sprintf("r%d=%d ", c.ch, v)
						n.pc[g]++
						n.waiting[g] = false
						next(n)
					case s.closed[c.ch]:
						any = true
						n := s.clone()
						n.log[g] += tag(isSel, i) + fmt.Sprintf("r%d=closed ", c.ch)
						n.pc[g]++
						n.waiting[g] = false
						next(n)
					}
				}
			}
			return any
		}
		for g := range p.gs {
			if !live(g) {
				continue
			}
			if s.waiting[g] {
				stateMoves(g) // wake(g)
				continue
			}
			// arrive(g)
			o := p.gs[g][s.pc[g]]
			if o.kind == tClose {
				n := s.clone()
				n.closed[o.ch] = true // the generator emits at most one close per channel
				n.log[g] += fmt.Sprintf("c%d ", o.ch)
				n.pc[g]++
				next(n)
				continue
			}
			can := stateMoves(g)
			cases, isSel, hasDef := p.alts(g, s.pc[g])
			for i, c := range cases {
				if p.caps[c.ch] != 0 || s.closed[c.ch] {
					continue
				}
				// unbuffered: rendezvous with a goroutine WAITING in the
				// complementary operation on this channel.
				for h := range p.gs {
					if h == g || !live(h) || !s.waiting[h] {
						continue
					}
					hc, hSel, _ := p.alts(h, s.pc[h])
					for j, d := range hc {
						if d.ch != c.ch || d.send == c.send {
							continue
						}
						can = true
						n := s.clone()
						if c.send {
							n.log[g] += tag(isSel, i) + fmt.Sprintf("s%d ", c.ch)
							n.log[h] += tag(hSel, j) + fmt.Sprintf("r%d=%d ", c.ch, c.val)
						} else {
							n.log[g] += tag(isSel, i) + fmt.Sprintf("r%d=%d ", c.ch, d.val)
							n.log[h] += tag(hSel, j) + fmt.Sprintf("s%d ", c.ch)
						}
						n.pc[g]++
						n.pc[h]++
						n.waiting[h] = false
						next(n)
					}
				}
			}
			if !can {
				n := s.clone()
				if hasDef {
					n.log[g] += "seldef "
					n.pc[g]++
				} else {
					n.waiting[g] = true
				}
				next(n)
			}
		}
		if !progressed {
			out[outcomeOf(p, s.pc, s.log)] = true
		}
	}
	visit(init)
	return out
}

// ---- simrt execution ----

type mapTape struct{ r tRng }

func (t *mapTape) Draw(n int) int {
	if n <= 1 {
		return 0
	}
	return t.r.n(n)
}

func simOutcome(p tProg, seed uint64, policy int) string {
	return simOutcomeTape(p, &mapTape{tRng(seed)}, policy)
}

// enumTape drives simrt systematically: it replays a prefix of choices, takes
// choice 0 afterwards, and records what was taken and how many options each
// draw had, so that a depth-first search over ALL tapes is possible.
type enumTape struct {
	prefix []int
	taken  []int
	widths []int
}

func (t *enumTape) Draw(n int) int {
	if n <= 1 {
		return 0
	}
	v := 0
	if i := len(t.taken); i < len(t.prefix) {
		v = t.prefix[i]
	}
	t.taken = append(t.taken, v)
	t.widths = append(t.widths, n)
	return v
}

// simAllOutcomes enumerates every schedule simrt can produce for p under the
// uniform policy (every draw is a free choice among all enabled actions), up
// to maxRuns executions. complete reports whether the search was exhaustive.
// It also asserts determinism: replaying a prefix must offer the same number
// of options at every replayed draw.
func simAllOutcomes(t *testing.T, p tProg, maxRuns int) (outs map[string]bool, runs int, complete bool) {
	outs = map[string]bool{}
	var prefix, prevWidths []int
	for {
		et := &enumTape{prefix: prefix}
		outs[erasePanicIndex(simOutcomeTape(p, et, 0))] = true
		runs++
		for i := 0; i < len(prefix) && i < len(et.widths) && i < len(prevWidths); i++ {
			if i < len(prefix)-1 && et.widths[i] != prevWidths[i] {
				t.Fatalf("simrt is not deterministic: replaying choice prefix %v, draw %d offered %d options, previously %d\nprogram: %v", prefix, i, et.widths[i], prevWidths[i], p)
			}
		}
		// next tape in depth-first order
		i := len(et.taken) - 1
		for i >= 0 && et.taken[i]+1 >= et.widths[i] {
			i--
		}
		if i < 0 {
			return outs, runs, true
		}
		if runs >= maxRuns {
			return outs, runs, false
		}
		prefix = append(append([]int(nil), et.taken[:i]...), et.taken[i]+1)
		prevWidths = et.widths
	}
}

func simOutcomeTape(p tProg, tape Tape, policy int) string {
	chans := make([]*Chan, len(p.caps))
	logs := make([]string, len(p.gs))
	pcs := make([]int, len(p.gs))
	runG := func(g int) {
		defer func() {
			if r := recover(); r != nil {
				if _, ok := r.(killed); ok {
					panic(r)
				}
				pcs[g] = -1
			}
		}()
		for pc, o := range p.gs[g] {
			pcs[g] = pc
			switch o.kind {
			case tSend:
				func() {
					defer func() {
						if r := recover(); r != nil {
							if _, ok := r.(killed); ok {
								panic(r)
							}
							logs[g] += "panic "
							panic(r)
						}
					}()
					Send(chans[o.ch], o.val)
				}()
				logs[g] += fmt.Sprintf("s%d ", o.ch)
			case tRecv:
				v, ok := Recv2(chans[o.ch])
				if ok {
					logs[g] += fmt.Sprintf("r%d=%d ", o.ch, v.(int))
				} else {
					logs[g] += fmt.Sprintf("r%d=closed ", o.ch)
				}
			case tClose:
				Close(chans[o.ch])
				logs[g] += fmt.Sprintf("c%d ", o.ch)
			case tSelect:
				cs := make([]Case, len(o.cases))
				for i, c := range o.cases {
					if c.send {
						cs[i] = SendCase(chans[c.ch], c.val)
					} else {
						cs[i] = RecvCase(chans[c.ch])
					}
				}
				var sel Selected
				func() {
					defer func() {
						if r := recover(); r != nil {
							if _, ok := r.(killed); ok {
								panic(r)
							}
							// send on closed channel inside a select: which
							// case it was is not reported by the panic; find
							// the (unique) closed send case.
							logs[g] += "sel?:panic "
							panic(r)
						}
					}()
					sel = Select(o.hasDefault, cs...)
				}()
				switch {
				case sel.Index < 0:
					logs[g] += "seldef "
				case o.cases[sel.Index].send:
					logs[g] += fmt.Sprintf("sel%d:s%d ", sel.Index, o.cases[sel.Index].ch)
				case sel.Ok:
					logs[g] += fmt.Sprintf("sel%d:r%d=%d ", sel.Index, o.cases[sel.Index].ch, sel.Val.(int))
				default:
					logs[g] += fmt.Sprintf("sel%d:r%d=closed ", sel.Index, o.cases[sel.Index].ch)
				}
			}
			pcs[g] = pc + 1
		}
	}
	cfg := Config{Policy: policy, ChangePoints: 3, StickyDen: 3, MaxSteps: 100000}
	res := Run(tape, cfg, func() {
		for i, c := range p.caps {
			chans[i] = NewChan(fmt.Sprintf("c%d", i), c)
		}
		for g := 1; g < len(p.gs); g++ {
			g := g
			Go(fmt.Sprintf("g%d", g), func() { runG(g) })
		}
		runG(0)
	})
	if res.Livelock {
		return "LIVELOCK"
	}
	return outcomeOf(p, pcs, logs)
}

// normalise maps the simrt-only spelling "sel?:panic" onto the reference's
// "sel<i>:panic" when the program makes the case unambiguous; otherwise both
// sides are compared with the index erased.
func erasePanicIndex(s string) string {
	for i := 0; i < 4; i++ {
		s = strings.ReplaceAll(s, fmt.Sprintf("sel%d:panic", i), "sel?:panic")
	}
	return s
}

// ---- native execution ----

func nativeOutcome(p tProg, seed uint64) string {
	chans := make([]reflect.Value, len(p.caps))
	for i, c := range p.caps {
		chans[i] = reflect.ValueOf(make(chan int, c))
	}
	logs := make([]string, len(p.gs))
	pcs := make([]int, len(p.gs))
	var mu sync.Mutex // protects logs/pcs for the final read only
	var progress int64
	var wg sync.WaitGroup
	r := tRng(seed)
	jitter := make([][]int, len(p.gs))
	for g := range p.gs {
		for range p.gs[g] {
			jitter[g] = append(jitter[g], r.n(4))
		}
	}
	for g := range p.gs {
		g := g
		wg.Add(1)
		go func() {
			defer wg.Done()
			defer func() {
				if r := recover(); r != nil {
					mu.Lock()
					pcs[g] = -1
					mu.Unlock()
				}
			}()
			add := func(s string) {
				mu.Lock()
				logs[g] += s
				progress++
				mu.Unlock()
			}
			for pc, o := range p.gs[g] {
				mu.Lock()
				pcs[g] = pc
				mu.Unlock()
				for k := 0; k < jitter[g][pc]; k++ {
					runtime.Gosched()
				}
				switch o.kind {
				case tSend:
					func() {
						defer func() {
							if r := recover(); r != nil {
								add("panic ")
								panic(r)
							}
						}()
						chans[o.ch].Send(reflect.ValueOf(o.val))
					}()
					add(fmt.Sprintf("s%d ", o.ch))
				case tRecv:
					v, ok := chans[o.ch].Recv()
					if ok {
						add(fmt.Sprintf("r%d=%d ", o.ch, v.Int()))
					} else {
						add(fmt.Sprintf("r%d=closed ", o.ch))
					}
				case tClose:
					chans[o.ch].Close()
					add(fmt.Sprintf("c%d ", o.ch))
				case tSelect:
					var cs []reflect.SelectCase
					for _, c := range o.cases {
						if c.send {
							cs = append(cs, reflect.SelectCase{Dir: reflect.SelectSend, Chan: chans[c.ch], Send: reflect.ValueOf(c.val)})
						} else {
							cs = append(cs, reflect.SelectCase{Dir: reflect.SelectRecv, Chan: chans[c.ch]})
						}
					}
					if o.hasDefault {
						cs = append(cs, reflect.SelectCase{Dir: reflect.SelectDefault})
					}
					var idx int
					var v reflect.Value
					var ok bool
					func() {
						defer func() {
							if r := recover(); r != nil {
								add("sel?:panic ")
								panic(r)
							}
						}()
						idx, v, ok = reflect.Select(cs)
					}()
					switch {
					case o.hasDefault && idx == len(o.cases):
						add("seldef ")
					case o.cases[idx].send:
						add(fmt.Sprintf("sel%d:s%d ", idx, o.cases[idx].ch))
					case ok:
						add(fmt.Sprintf("sel%d:r%d=%d ", idx, o.cases[idx].ch, v.Int()))
					default:
						add(fmt.Sprintf("sel%d:r%d=closed ", idx, o.cases[idx].ch))
					}
				}
				mu.Lock()
				pcs[g] = pc + 1
				mu.Unlock()
			}
		}()
	}
	// Quiescence: all done, or no progress for a while (the rest is blocked
	// forever; those goroutines are deliberately leaked - the programs are tiny).
	done := make(chan struct{})
	go func() { wg.Wait(); close(done) }()
	last, idle := int64(-1), 0
	for {
		select {
		case <-done:
			mu.Lock()
			defer mu.Unlock()
			return outcomeOf(p, pcs, logs)
		case <-time.After(2 * time.Millisecond):
		}
		mu.Lock()
		cur := progress
		mu.Unlock()
		if cur == last {
			idle++
		} else {
			idle, last = 0, cur
		}
		if idle >= 15 {
			mu.Lock()
			defer mu.Unlock()
			return outcomeOf(p, append([]int(nil), pcs...), append([]string(nil), logs...))
		}
	}
}

func sortedKeys(m map[string]bool) []string {
	var ks []string
	for k := range m {
		ks = append(ks, k)
	}
	sort.Strings(ks)
	return ks
}

func TestSimrtAgainstReferenceAndNative(t *testing.T) {
	nprog := 400
	if testing.Short() {
		nprog = 80
	}
	enumBudget := 150000
	if testing.Short() {
		enumBudget = 20000
	}
	totalRef, totalSim, totalNative, totalRuns, nComplete := 0, 0, 0, 0, 0
	for ps := 0; ps < nprog; ps++ {
		p := genProg(uint64(ps))
		ref := map[string]bool{}
		for k := range refOutcomes(p) {
			ref[erasePanicIndex(k)] = true
		}
		// 1. The oracle itself is checked against the real Go runtime before
		//    it is used to judge simrt.
		if ps%4 == 0 {
			for _, procs := range []int{1, 4} {
				old := runtime.GOMAXPROCS(procs)
				for s := 0; s < 12; s++ {
					k := erasePanicIndex(nativeOutcome(p, uint64(s+1)*977+uint64(ps)))
					totalNative++
					if !ref[k] {
						runtime.GOMAXPROCS(old)
						t.Fatalf("the real Go runtime produced an outcome the REFERENCE forbids: the reference model is wrong\nprogram %d: %v\noutcome: %s\nreference outcomes:\n  %s", ps, p, k, strings.Join(sortedKeys(ref), "\n  "))
					}
				}
				runtime.GOMAXPROCS(old)
			}
		}
		// 2. simrt, enumerated exhaustively (uniform policy), against the
		//    oracle: every reachable outcome must be legal, and when the
		//    enumeration completes the two sets must be EQUAL.
		all, runs, complete := simAllOutcomes(t, p, enumBudget)
		totalRuns += runs
		for k := range all {
			if !ref[k] {
				t.Fatalf("simrt produced an outcome the Go channel rules forbid (would be a false alarm in C14)\nprogram %d: %v\noutcome: %s\nlegal outcomes (%d):\n  %s", ps, p, k, len(ref), strings.Join(sortedKeys(ref), "\n  "))
			}
		}
		if complete {
			nComplete++
			var m []string
			for k := range ref {
				if !all[k] {
					m = append(m, k)
				}
			}
			sort.Strings(m)
			if len(m) > 0 {
				t.Fatalf("simrt cannot reach a legal outcome although all %d of its schedules were enumerated (a behaviour C14 could never explore)\nprogram %d: %v\nunreachable: %s", runs, ps, p, strings.Join(m, "\n             "))
			}
		}
		// 3. The priority and sticky policies only restrict the uniform
		//    scheduler's choices; sampled, their outcomes must be legal too.
		for sd := 0; sd < 200; sd++ {
			k := erasePanicIndex(simOutcome(p, uint64(sd)*2654435761+uint64(ps), 1+sd%2))
			if !ref[k] {
				t.Fatalf("simrt (policy %d) produced an outcome the Go channel rules forbid\nprogram %d: %v\noutcome: %s", 1+sd%2, ps, p, k)
			}
		}
		totalRef += len(ref)
		totalSim += len(all)
	}
	t.Logf("%d programs, %d simrt schedules enumerated; exhaustive for %d programs (there: simrt-reachable == reference, exactly); %d reference outcomes, %d reached; %d native executions, all legal",
		nprog, totalRuns, nComplete, totalRef, totalSim, totalNative)
	if nComplete < nprog/2 {
		t.Fatalf("only %d of %d programs were enumerated exhaustively: the equality check is too thin", nComplete, nprog)
	}
}

// TestBufferedChannelIsFIFO pins the specific rule whose violation produced a
// false deadlock in lib/rac: with a full buffered channel, a blocked sender and
// a blocked receiver, the receiver must get the HEAD of the buffer, never the
// blocked sender's value.
func TestBufferedChannelIsFIFO(t *testing.T) {
	for seed := 0; seed < 3000; seed++ {
		var got []int
		Run(&mapTape{tRng(seed)}, Config{Policy: seed % 3, ChangePoints: 2, StickyDen: 3}, func() {
			c := NewChan("c", 2)
			Go("sender", func() {
				for v := 1; v <= 5; v++ {
					Send(c, v)
				}
				Close(c)
			})
			for {
				v, ok := Recv2(c)
				if !ok {
					break
				}
				got = append(got, v.(int))
			}
		})
		if fmt.Sprint(got) != "[1 2 3 4 5]" {
			t.Fatalf("seed %d: single sender, single receiver, cap 2: received %v, want [1 2 3 4 5]", seed, got)
		}
	}
}
