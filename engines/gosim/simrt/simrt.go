// Package simrt is the deterministic goroutine/channel runtime that the
// rewritten lib/rac/conc_reader.go runs on during the C14 check. It is added
// to the build as a *virtual* package (github.com/google/wuffs/lib/simrt)
// through `go build -overlay`; it does not exist in the repository.
//
// Model. Every simulated goroutine is a real goroutine that is parked on its
// own wake channel except while the scheduler has released it: exactly one
// runs at a time. Channel state (buffer, closed flag) and every pending
// operation are plain data owned by the scheduler. One scheduler step is a
// tape draw among
//
//	resume(G)            G is Ready (new, yielded, or its operation completed)
//	fire(G, alt)         a pending send/recv/select alternative of G is enabled
//	                     (buffer room / buffered value / closed channel)
//	pair(S, alt, R, alt) a blocked sender and a blocked receiver rendezvous
//	default(G)           G's select has a default and no alternative is enabled
//	wake(G)              G's virtual-time sleep expired
//
// Firing only marks the participants Ready; which of them continues first is a
// later draw. nil channels are never enabled. Sends on a closed channel panic
// in the sender, as in Go. Spec-permitted but runtime-unusual behaviour is
// included (any blocked sender may take a freed buffer slot; no FIFO wake-up).
//
// Go 1.16 language subset (the repository's go.mod): no generics.
package simrt

import (
	"fmt"
	"sort"
	"strconv"
)

// Tape is the scheduler's only source of choice.
type Tape interface {
	Draw(n int) int
}

type msg struct {
	v   interface{}
	tok *int32
}

// Chan is a simulated channel. A nil *Chan behaves like a nil channel.
type Chan struct {
	id     int
	name   string
	cap    int
	buf    []msg
	closed bool
	// free-slot tokens: the receive that freed a buffer slot happens before
	// the completion of the send that re-uses it.
	slotTok  []*int32
	closeTok *int32
}

type altKind int

const (
	altSend altKind = iota
	altRecv
)

type alt struct {
	kind altKind
	ch   *Chan
	val  interface{}
}

type opKind int

const (
	opNone opKind = iota
	opChan        // send / recv / select
	opSleep
)

type gstate int

const (
	gReady gstate = iota
	gRunning
	gBlocked
	gDone
)

type goroutine struct {
	id    int
	name  string
	wake  chan struct{}
	state gstate
	prio  int

	op          opKind
	alts        []alt
	hasDefault  bool
	until       int64
	needPrio    bool   // policy 1: the scheduler has yet to draw the priority
	needLatency bool   // sleep posted; the scheduler has yet to draw its length
	tok         *int32 // released by this goroutine when it posted the op

	// result of the completed op
	resIndex int
	resVal   interface{}
	resOk    bool
	resPanic string
	acq      []*int32 // tokens to acquire on resume

	tag string // last yield tag / op description for diagnostics
}

// Config selects scheduler behaviour for one run.
type Config struct {
	Policy       int   // 0 uniform, 1 priority with change points, 2 sticky (bursty)
	ChangePoints int   // policy 1
	MaxSteps     int64 // livelock bound
	StickyDen    int   // policy 2: switch with probability 1/StickyDen
	MaxLatency   int   // upper bound for SleepRand draws (virtual ticks)
	StallG       int   // goroutine id whose sleeps take StallFactor times longer (0 = none)
	StallFactor  int
	Verbose      bool // collect a step-by-step log in Result.Log
}

// Result is what a run reports.
type Result struct {
	Steps      int64
	Ticks      int64
	Deadlock   string // non-empty: description of who is blocked on what
	Livelock   bool
	Leaked     []string // goroutines not finished at quiescence after main returned
	LeakInfo   string
	Panic      string // panic in a simulated goroutine (other than main's own reporting)
	PanicG     string
	FP         uint64
	States     []uint64
	Goroutines int
	Switches   int64
	MaxBlocked int
	Races      int
	Log        []string
}

type sched struct {
	tape     Tape
	cfg      Config
	gs       []*goroutine
	chans    int
	back     chan *goroutine
	cur      *goroutine
	now      int64
	steps    int64
	dead     bool
	res      Result
	fp       uint64
	state    map[uint64]struct{}
	last     int // id of the goroutine that ran last (policy 2)
	cps      map[int64]bool
	mainDone bool
	outer    bool
	doneTok  *int32
}

var theSched *sched

type killed struct{}

//go:norace
func fpAdd(h uint64, v uint64) uint64 {
	for i := 0; i < 8; i++ {
		h ^= v & 0xFF
		h *= 1099511628211
		v >>= 8
	}
	return h
}

//go:norace
func fpStr(h uint64, s string) uint64 {
	for i := 0; i < len(s); i++ {
		h ^= uint64(s[i])
		h *= 1099511628211
	}
	return h
}

// Run executes main as simulated goroutine 0 ("caller") to quiescence.
//
//go:norace
func Run(tape Tape, cfg Config, main func()) Result {
	if theSched != nil {
		panic("simrt: nested Run")
	}
	raceDisable()
	defer raceEnable()
	s := &sched{tape: tape, cfg: cfg, back: make(chan *goroutine), fp: 14695981039346656037, state: map[uint64]struct{}{}, doneTok: newToken()}
	if s.cfg.MaxSteps <= 0 {
		s.cfg.MaxSteps = 1 << 22
	}
	if s.cfg.Policy == 1 {
		s.cps = map[int64]bool{}
		for i := 0; i < s.cfg.ChangePoints; i++ {
			s.cps[int64(tape.Draw(4000))] = true
		}
	}
	theSched = s
	s.outer = true
	s.spawn("caller", main)
	s.outer = false
	s.loop()
	theSched = nil
	s.res.Steps = s.steps
	s.res.Ticks = s.now
	s.res.FP = s.fp
	s.res.Goroutines = len(s.gs)
	for k := range s.state {
		s.res.States = append(s.res.States, k)
	}
	sort.Slice(s.res.States, func(i, j int) bool { return s.res.States[i] < s.res.States[j] })
	s.res.Races = raceErrors()
	raceEnable()
	raceAcquire(s.doneTok)
	raceDisable()
	return s.res
}

//go:norace
func (s *sched) spawn(name string, f func()) *goroutine {
	g := &goroutine{id: len(s.gs), name: name, wake: make(chan struct{}), state: gReady}
	// The priority is drawn later by the scheduler goroutine (see enabled):
	// spawn runs on the simulated goroutine that executed the go statement,
	// and the tape must never be touched from there.
	g.needPrio = s.cfg.Policy == 1
	g.name = name + "#" + strconv.Itoa(g.id)
	s.gs = append(s.gs, g)
	startGoroutine(s, g, f)
	return g
}

// startGoroutine issues the real go statement with race handling enabled, so
// that the detector sees the go-statement happens-before edge.
//
//go:norace
func startGoroutine(s *sched, g *goroutine, f func()) {
	if s.cur != nil || s.outer {
		raceEnable()
		go s.body(g, f)
		raceDisable()
	} else {
		go s.body(g, f)
	}
}

//go:norace
func (s *sched) body(g *goroutine, f func()) {
	raceDisable()
	<-g.wake
	raceEnable()
	defer s.finish(g)
	if s.dead {
		panic(killed{})
	}
	f()
	if g.id == 0 {
		s.mainDone = true
	}
}

//go:norace
func (s *sched) finish(g *goroutine) {
	r := recover()
	msg := ""
	if r != nil {
		if _, ok := r.(killed); !ok {
			msg = "panic: " + fmt.Sprint(r) // formatted on the simulated goroutine, race handling on
		}
	}
	// The end of every simulated goroutine happens before Run returns.
	raceRelease(s.doneTok)
	raceDisable()
	if msg != "" && s.res.Panic == "" {
		s.res.Panic = msg
		s.res.PanicG = g.name
	}
	g.state = gDone
	s.back <- g
}

// park hands control back to the scheduler and waits to be resumed. Called on
// the simulated goroutine with race handling disabled.
//
//go:norace
func (s *sched) park(g *goroutine) {
	s.back <- g
	<-g.wake
	if s.dead {
		raceEnable()
		panic(killed{})
	}
}

// cat formats without package fmt: fmt recycles printers through a sync.Pool,
// and the scheduler runs with race synchronisation events ignored, so a pooled
// printer handed from the scheduler to a simulated goroutine would be reported
// as a (harness-only) data race.
//
//go:norace
func cat(parts ...interface{}) string {
	out := ""
	for _, p := range parts {
		switch v := p.(type) {
		case string:
			out += v
		case int:
			out += strconv.Itoa(v)
		case int64:
			out += strconv.FormatInt(v, 10)
		case bool:
			out += strconv.FormatBool(v)
		default:
			out += "?"
		}
	}
	return out
}

//go:norace
func (s *sched) trace(parts ...interface{}) {
	if s.cfg.Verbose {
		s.res.Log = append(s.res.Log, "    t="+strconv.FormatInt(s.now, 10)+" step "+strconv.FormatInt(s.steps, 10)+": "+cat(parts...))
	}
}

// Log appends a harness line to the scheduler-owned log (so that harness and
// scheduler lines interleave in execution order without the harness sharing
// memory with the scheduler).
//
//go:norace
func Log(line string) {
	raceDisable()
	if s := theSched; s != nil && s.cfg.Verbose {
		s.res.Log = append(s.res.Log, line)
	}
	raceEnable()
}

type action struct {
	kind    int // 0 resume, 1 fire, 2 pair, 3 default, 4 wake
	g       *goroutine
	alt     int
	partner *goroutine
	palt    int
}

//go:norace
func (s *sched) enabled() []action {
	var out []action
	for _, g := range s.gs {
		if g.needPrio {
			g.needPrio = false
			g.prio = 1000 + s.tape.Draw(1000)
		}
		switch g.state {
		case gReady:
			out = append(out, action{kind: 0, g: g})
		case gBlocked:
			if g.op == opSleep {
				if g.needLatency {
					// Drawn here, on the scheduler goroutine.
					g.needLatency = false
					d := int64(0)
					if s.cfg.MaxLatency > 0 {
						d = int64(s.tape.Draw(s.cfg.MaxLatency + 1))
					}
					if s.cfg.StallG != 0 && g.id == s.cfg.StallG && s.cfg.StallFactor > 1 {
						d *= int64(s.cfg.StallFactor)
					}
					g.until = s.now + d
				}
				if s.now >= g.until {
					out = append(out, action{kind: 4, g: g})
				}
				continue
			}
			any := false
			for i, a := range g.alts {
				c := a.ch
				if c == nil {
					continue
				}
				if a.kind == altSend {
					if c.closed || len(c.buf) < c.cap {
						out = append(out, action{kind: 1, g: g, alt: i})
						any = true
						continue
					}
					// Direct hand-off from a blocked sender to a blocked
					// receiver exists only on UNBUFFERED channels. On a
					// buffered channel every value goes through the buffer:
					// a receiver always takes the head, and a blocked
					// sender's value enters behind whatever is queued.
					// Pairing on a full buffered channel would let a value
					// overtake the queue, which Go's FIFO guarantee forbids
					// (it once produced a false deadlock in lib/rac, whose
					// buffer accounting relies on that order).
					if c.cap != 0 {
						continue
					}
					for _, r := range s.gs {
						if r == g || r.state != gBlocked || r.op != opChan {
							continue
						}
						// A rendezvous needs one side to be WAITING when the
						// other arrives, and a select with a default never
						// waits: two such selects can never meet.
						if g.hasDefault && r.hasDefault {
							continue
						}
						for j, b := range r.alts {
							if b.kind == altRecv && b.ch == c {
								out = append(out, action{kind: 2, g: g, alt: i, partner: r, palt: j})
								any = true
							}
						}
					}
				} else {
					if len(c.buf) > 0 || c.closed {
						out = append(out, action{kind: 1, g: g, alt: i})
						any = true
					} else if c.cap == 0 {
						// Unbuffered: a sender already blocked in its send
						// makes this receive able to proceed, so a select's
						// default must not be taken; the pair itself is
						// listed from the sender's side. (Buffered: a pending
						// sender has simply not sent yet, and default is a
						// legal outcome.)
						for _, sd := range s.gs {
							if sd == g || sd.state != gBlocked || sd.op != opChan {
								continue
							}
							if sd.hasDefault {
								continue // it cannot be waiting in its send
							}
							for _, b := range sd.alts {
								if b.kind == altSend && b.ch == c {
									any = true
								}
							}
						}
					}
				}
			}
			if g.hasDefault && !any {
				out = append(out, action{kind: 3, g: g})
			}
		}
	}
	return out
}

//go:norace
func (s *sched) abstractState() uint64 {
	h := uint64(14695981039346656037)
	for _, g := range s.gs {
		v := uint64(g.state)
		if g.state == gBlocked {
			v = 16
			for _, a := range g.alts {
				if a.ch != nil {
					v = v*31 + uint64(a.kind)*7 + uint64(a.ch.id%16) + 1
				}
			}
			if g.op == opSleep {
				v = 17
			}
		}
		// role, not id: workers are interchangeable.
		h = fpStr(h, g.name[:indexByte(g.name, '#')])
		h = fpAdd(h, v)
	}
	return h
}

//go:norace
func indexByte(s string, b byte) int {
	for i := 0; i < len(s); i++ {
		if s[i] == b {
			return i
		}
	}
	return len(s)
}

//go:norace
func (s *sched) choose(acts []action) action {
	switch s.cfg.Policy {
	case 1:
		if s.cps[s.steps] && s.cur != nil {
			s.cur.prio = s.tape.Draw(1000) // demote below every initial priority
		}
		best := 0
		for i, a := range acts {
			if a.g.prio > acts[best].g.prio {
				best = i
			}
		}
		// Ties (several actions of the top goroutine) are drawn.
		var top []int
		for i, a := range acts {
			if a.g.prio == acts[best].g.prio {
				top = append(top, i)
			}
		}
		return acts[top[s.tape.Draw(len(top))]]
	case 2:
		den := s.cfg.StickyDen
		if den < 2 {
			den = 8
		}
		var same []int
		for i, a := range acts {
			if a.g.id == s.last {
				same = append(same, i)
			}
		}
		if len(same) > 0 && s.tape.Draw(den) != den-1 {
			return acts[same[s.tape.Draw(len(same))]]
		}
	}
	return acts[s.tape.Draw(len(acts))]
}

//go:norace
func (s *sched) describeBlocked() string {
	out := ""
	for _, g := range s.gs {
		if g.state != gBlocked {
			continue
		}
		out += g.name + ":"
		if g.op == opSleep {
			out += " sleep"
		}
		for _, a := range g.alts {
			k := "send"
			if a.kind == altRecv {
				k = "recv"
			}
			if a.ch == nil {
				out += " " + k + "(nil)"
			} else {
				out += cat(" ", k, "(", a.ch.name, " len=", len(a.ch.buf), "/", a.ch.cap, " closed=", a.ch.closed, ")")
			}
		}
		if g.hasDefault {
			out += " default"
		}
		out += "; "
	}
	return out
}

//go:norace
func (s *sched) loop() {
	for {
		if s.res.Panic != "" {
			break
		}
		acts := s.enabled()
		if len(acts) == 0 {
			// Advance virtual time to the next timer, if any.
			next := int64(-1)
			blocked := 0
			for _, g := range s.gs {
				if g.state == gBlocked {
					blocked++
					if g.op == opSleep && (next < 0 || g.until < next) {
						next = g.until
					}
				}
			}
			if next >= 0 {
				s.now = next
				continue
			}
			if blocked == 0 {
				break // everything finished
			}
			if s.mainDone {
				for _, g := range s.gs {
					if g.state == gBlocked {
						s.res.Leaked = append(s.res.Leaked, g.name)
					}
				}
				s.res.LeakInfo = s.describeBlocked()
				s.trace("quiescent with leaked goroutines: ", s.res.LeakInfo)
				break
			}
			s.res.Deadlock = s.describeBlocked()
			s.trace("DEADLOCK: ", s.res.Deadlock)
			break
		}
		if s.steps >= s.cfg.MaxSteps {
			s.res.Livelock = true
			break
		}
		s.steps++
		a := s.choose(acts)
		nb := 0
		for _, g := range s.gs {
			if g.state == gBlocked {
				nb++
			}
		}
		if nb > s.res.MaxBlocked {
			s.res.MaxBlocked = nb
		}
		s.state[s.abstractState()] = struct{}{}
		s.fp = fpAdd(s.fp, uint64(a.kind)<<8|uint64(a.g.id))
		switch a.kind {
		case 0:
			if a.g.id != s.last {
				s.res.Switches++
			}
			s.last = a.g.id
			s.trace("run ", a.g.name)
			s.cur = a.g
			a.g.state = gRunning
			a.g.wake <- struct{}{}
			<-s.back
			s.cur = nil
		case 1:
			s.fire(a.g, a.alt)
		case 2:
			s.pair(a.g, a.alt, a.partner, a.palt)
		case 3:
			s.trace(a.g.name, " select -> default")
			a.g.resIndex = -1
			a.g.state = gReady
			a.g.op = opNone
		case 4:
			s.trace(a.g.name, " wakes")
			a.g.state = gReady
			a.g.op = opNone
		}
	}
	// Release every goroutine that is still parked so that nothing real leaks.
	s.dead = true
	for _, g := range s.gs {
		if g.state == gBlocked || g.state == gReady {
			g.wake <- struct{}{}
			<-s.back
		}
	}
}

//go:norace
func (s *sched) fire(g *goroutine, i int) {
	a := g.alts[i]
	c := a.ch
	s.fp = fpStr(fpAdd(s.fp, uint64(a.kind)), c.name)
	g.resIndex = i
	g.acq = g.acq[:0]
	if a.kind == altSend {
		if c.closed {
			s.trace(g.name, " send(", c.name, ") on closed channel -> panic")
			g.resPanic = "send on closed channel"
		} else {
			s.trace(g.name, " send(", c.name, ") into buffer ", len(c.buf)+1, "/", c.cap)
			c.buf = append(c.buf, msg{a.val, g.tok})
			if len(c.slotTok) > 0 {
				g.acq = append(g.acq, c.slotTok[0])
				c.slotTok = c.slotTok[1:]
			}
		}
	} else {
		if len(c.buf) > 0 {
			m := c.buf[0]
			c.buf = c.buf[1:]
			g.resVal, g.resOk = m.v, true
			g.acq = append(g.acq, m.tok)
			c.slotTok = append(c.slotTok, g.tok)
			s.trace(g.name, " recv(", c.name, ") from buffer, ", len(c.buf), " left")
		} else {
			g.resVal, g.resOk = nil, false
			g.acq = append(g.acq, c.closeTok)
			s.trace(g.name, " recv(", c.name, ") observes close")
		}
	}
	g.state = gReady
	g.op = opNone
}

//go:norace
func (s *sched) pair(sd *goroutine, i int, rv *goroutine, j int) {
	c := sd.alts[i].ch
	s.fp = fpStr(fpAdd(s.fp, uint64(rv.id)<<4|2), c.name)
	s.trace("rendezvous ", sd.name, " -> ", rv.name, " on ", c.name)
	rv.resIndex, rv.resVal, rv.resOk = j, sd.alts[i].val, true
	rv.acq = append(rv.acq[:0], sd.tok)
	sd.resIndex = i
	sd.acq = append(sd.acq[:0], rv.tok)
	sd.state, rv.state = gReady, gReady
	sd.op, rv.op = opNone, opNone
}

// ---- operations called by simulated goroutines ----

//go:norace
func current() (*sched, *goroutine) {
	s := theSched
	if s == nil || s.cur == nil {
		panic("simrt: channel operation outside simrt.Run")
	}
	return s, s.cur
}

// do posts an operation and parks until it completed.
//
//go:norace
func do(alts []alt, hasDefault bool) (int, interface{}, bool) {
	tok := newToken()
	raceRelease(tok)
	raceDisable()
	s, g := current()
	g.op, g.alts, g.hasDefault, g.tok = opChan, alts, hasDefault, tok
	g.state = gBlocked
	g.resPanic = ""
	s.park(g)
	idx, v, ok, p := g.resIndex, g.resVal, g.resOk, g.resPanic
	acq := append([]*int32(nil), g.acq...)
	g.alts, g.resVal = nil, nil
	raceEnable()
	for _, t := range acq {
		if t != nil {
			raceAcquire(t)
		}
	}
	if p != "" {
		panic(p)
	}
	return idx, v, ok
}

// NewChan makes a simulated channel.
//
//go:norace
func NewChan(name string, capacity int) *Chan {
	raceDisable()
	defer raceEnable()
	s := theSched
	id := 0
	if s != nil {
		s.chans++
		id = s.chans
	}
	return &Chan{id: id, name: name, cap: capacity, closeTok: newToken()}
}

// Send is `c <- v`.
//
//go:norace
func Send(c *Chan, v interface{}) {
	do([]alt{{altSend, c, v}}, false)
}

// Recv is `<-c`; the result is nil when the channel is closed.
//
//go:norace
func Recv(c *Chan) interface{} {
	_, v, _ := do([]alt{{altRecv, c, nil}}, false)
	return v
}

// Recv2 is `v, ok := <-c`.
//
//go:norace
func Recv2(c *Chan) (interface{}, bool) {
	_, v, ok := do([]alt{{altRecv, c, nil}}, false)
	return v, ok
}

// Close is close(c).
//
//go:norace
func Close(c *Chan) {
	if c == nil {
		panic("close of nil channel")
	}
	raceRelease(c.closeTok)
	raceDisable()
	s, g := current()
	if c.closed {
		raceEnable()
		panic("close of closed channel")
	}
	c.closed = true
	s.trace(g.name, " close(", c.name, ")")
	// Closing is a scheduling point.
	g.state = gReady
	g.tag = "close"
	s.park(g)
	raceEnable()
}

//go:norace
func Len(c *Chan) int {
	if c == nil {
		return 0
	}
	return len(c.buf)
}

//go:norace
func Cap(c *Chan) int {
	if c == nil {
		return 0
	}
	return c.cap
}

// Case is one alternative of a select.
type Case struct {
	send bool
	c    *Chan
	v    interface{}
}

func SendCase(c *Chan, v interface{}) Case { return Case{true, c, v} }
func RecvCase(c *Chan) Case                { return Case{false, c, nil} }

// Selected is the outcome of a select.
type Selected struct {
	Index int // -1 = default
	Val   interface{}
	Ok    bool
}

// Select is a select statement. Channel operands and send values were already
// evaluated by the caller, in source order, as Go does.
//
//go:norace
func Select(hasDefault bool, cases ...Case) Selected {
	alts := make([]alt, len(cases))
	for i, c := range cases {
		k := altRecv
		if c.send {
			k = altSend
		}
		alts[i] = alt{k, c.c, c.v}
	}
	idx, v, ok := do(alts, hasDefault)
	return Selected{idx, v, ok}
}

// Go is the go statement.
//
//go:norace
func Go(name string, f func()) {
	raceDisable()
	s, g := current()
	s.trace(g.name, " starts goroutine ", name)
	s.spawn(name, f)
	// Spawning is a scheduling point.
	g.state = gReady
	s.park(g)
	raceEnable()
}

// Yield is a pure scheduling point (used by the simulated disk).
//
//go:norace
func Yield(tag string) {
	raceDisable()
	s, g := current()
	g.state = gReady
	g.tag = tag
	s.park(g)
	raceEnable()
}

// SleepRand blocks the goroutine for a scheduler-drawn number of virtual ticks
// in [0, Config.MaxLatency]; the stalled goroutine's sleeps are multiplied.
//
//go:norace
func SleepRand(tag string) {
	raceDisable()
	s, g := current()
	// The latency is NOT drawn here. The tape belongs to the scheduler
	// goroutine alone: drawing on a simulated goroutine would make the tape
	// shared, unsynchronised memory in the race detector's eyes (a
	// harness-only data race). The scheduler draws it when it next looks at
	// this goroutine (needLatency).
	g.op, g.until, g.alts, g.hasDefault = opSleep, 0, nil, false
	g.needLatency = true
	g.state = gBlocked
	g.tag = tag
	s.park(g)
	raceEnable()
}

// Now is the virtual clock.
//
//go:norace
func Now() int64 {
	if theSched == nil {
		return 0
	}
	return theSched.now
}

// Active reports whether a simulation is running (the simulated disk falls
// back to plain behaviour outside one, e.g. while the file is being written).
//
//go:norace
func Active() bool { return theSched != nil && theSched.cur != nil }

// CurrentName names the running simulated goroutine.
//
//go:norace
func CurrentName() string {
	if theSched == nil || theSched.cur == nil {
		return ""
	}
	return theSched.cur.name
}
