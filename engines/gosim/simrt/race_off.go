//go:build !race
// +build !race

package simrt

func raceDisable()         {}
func raceEnable()          {}
func raceRelease(t *int32) {}
func raceAcquire(t *int32) {}
func raceErrors() int      { return 0 }
func newToken() *int32     { return nil }

// RaceEnabled reports whether this is a -race build.
const RaceEnabled = false
