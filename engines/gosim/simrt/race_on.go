//go:build race
// +build race

package simrt

import (
	"runtime"
	"unsafe"
)

func raceDisable()         { runtime.RaceDisable() }
func raceEnable()          { runtime.RaceEnable() }
func raceRelease(t *int32) { runtime.RaceReleaseMerge(unsafe.Pointer(t)) }
func raceAcquire(t *int32) { runtime.RaceAcquire(unsafe.Pointer(t)) }
func raceErrors() int      { return runtime.RaceErrors() }
func newToken() *int32     { return new(int32) }

// RaceEnabled reports whether this is a -race build.
const RaceEnabled = true
