// Engine A ("gosim"): the real lib/rac Reader — with conc_reader.go rewritten at
// check time so that every go statement, channel operation and select goes
// through the simrt scheduler — driven by seeded call histories on a simulated
// disk, under seeded goroutine schedules (C14).
//
// This package only builds with the overlay produced by `vcheck` (it imports
// the virtual package github.com/google/wuffs/lib/simrt).
package main

import (
	"bytes"
	"fmt"
	"io"
	"os"
	"strings"

	"github.com/google/wuffs/lib/rac"
	"github.com/google/wuffs/lib/raczlib"
	"github.com/google/wuffs/lib/simrt"

	"verif/racx"
	"verif/sim"
)

func main() {
	sim.WorkerMain(sim.EngineSpec{
		Name: "gosim",
		Props: map[string]sim.PropSpec{
			"C14": {Run: runC14, Modes: []string{"conc", "conc", "conc", "seq"},
				// The race detector reports each race once per process.
				NoReexec: map[string]bool{"data_race": true}},
		},
	})
}

// ---- simulated disk ----

// simFile is an immutable in-memory file. ReadAt (the only method the
// concurrent reader's workers use) is a scheduling point with a
// scheduler-drawn virtual latency.
type simFile struct {
	data []byte
	pos  int64
}

func (f *simFile) ReadAt(p []byte, off int64) (int, error) {
	if simrt.Active() {
		simrt.SleepRand("ReadAt")
	}
	if off < 0 {
		return 0, fmt.Errorf("simFile: negative offset")
	}
	if off >= int64(len(f.data)) {
		return 0, io.EOF
	}
	n := copy(p, f.data[off:])
	if n < len(p) {
		return n, io.EOF
	}
	return n, nil
}

func (f *simFile) Read(p []byte) (int, error) {
	if simrt.Active() {
		simrt.Yield("Read")
	}
	if f.pos >= int64(len(f.data)) {
		return 0, io.EOF
	}
	n := copy(p, f.data[f.pos:])
	f.pos += int64(n)
	return n, nil
}

func (f *simFile) Seek(off int64, whence int) (int64, error) {
	switch whence {
	case io.SeekStart:
	case io.SeekCurrent:
		off += f.pos
	case io.SeekEnd:
		off += int64(len(f.data))
	default:
		return 0, fmt.Errorf("simFile: bad whence")
	}
	if off < 0 {
		return 0, fmt.Errorf("simFile: negative seek")
	}
	f.pos = off
	return off, nil
}

// seekOnly hides ReadAt (sequential reader over a plain ReadSeeker).
type seekOnly struct{ f *simFile }

func (s seekOnly) Read(p []byte) (int, error)                { return s.f.Read(p) }
func (s seekOnly) Seek(off int64, whence int) (int64, error) { return s.f.Seek(off, whence) }

// ---- files ----

type fileSpec struct {
	Codec    string
	PayClass int
	PayLen   int
	PaySeed  int
	DChunk   int
	AtStart  bool
	Page     int
}

func (s fileSpec) String() string {
	return fmt.Sprintf("file{codec=%s class=%d len=%d seed=%d dchunk=%d indexAtStart=%v page=%d}", s.Codec, s.PayClass, s.PayLen, s.PaySeed, s.DChunk, s.AtStart, s.Page)
}

type racFile struct {
	spec    fileSpec
	payload []byte
	bytes   []byte
	bounds  []int64 // chunk boundaries in DSpace (ascending, includes 0 and len)
}

var fileCache = map[fileSpec]*racFile{}
var fileCacheOrder []fileSpec

func buildFile(s fileSpec) (*racFile, error) {
	if f, ok := fileCache[s]; ok {
		return f, nil
	}
	payload := sim.GenBytes(uint64(s.PaySeed), s.PayLen, s.PayClass)
	var out bytes.Buffer
	w := &rac.Writer{Writer: &out, DChunkSize: uint64(s.DChunk), CPageSize: uint64(s.Page)}
	if s.Codec == "zlib" {
		w.CodecWriter = &raczlib.CodecWriter{}
	} else {
		w.CodecWriter = &racx.StubWriter{}
	}
	var tmp bytes.Buffer
	if s.AtStart {
		w.IndexLocation = rac.IndexLocationAtStart
		w.TempFile = &tmp
	}
	if _, err := w.Write(payload); err != nil {
		return nil, err
	}
	if err := w.Close(); err != nil {
		return nil, err
	}
	f := &racFile{spec: s, payload: payload, bytes: append([]byte(nil), out.Bytes()...)}
	// Chunk boundaries from the real ChunkReader (only used to bias offsets).
	cr := &rac.ChunkReader{ReadSeeker: bytes.NewReader(f.bytes), CompressedSize: int64(len(f.bytes))}
	f.bounds = append(f.bounds, 0)
	for {
		c, err := cr.NextChunk()
		if err != nil {
			break
		}
		f.bounds = append(f.bounds, c.DRange[1])
	}
	if len(fileCacheOrder) >= 24 {
		delete(fileCache, fileCacheOrder[0])
		fileCacheOrder = fileCacheOrder[1:]
	}
	fileCache[s] = f
	fileCacheOrder = append(fileCacheOrder, s)
	return f, nil
}

func drawFileSpec(t *sim.Tape, opt sim.RunOpt) fileSpec {
	s := fileSpec{}
	// A small family of shapes (cached per process), so that most of a
	// worker's time goes into schedules and histories, not compression.
	shape := t.Pick(4, 3, 3, 2, 2, 2, 1, 1)
	variant := t.Draw(3)
	s.PaySeed = 1000*shape + variant
	s.Codec = "stub"
	s.PayClass = []int{sim.PayText, sim.PayZeroHeavy, sim.PayRandom}[variant]
	switch shape {
	case 0: // a handful of small chunks
		s.PayLen, s.DChunk = 900+37*variant, 100
	case 1: // many chunks, single-level index
		s.PayLen, s.DChunk = 20000, 97+variant
	case 2: // zlib, a few dozen chunks
		s.Codec, s.PayLen, s.DChunk = "zlib", 30000, 1000
	case 3: // multi-level index (> 255 chunks)
		s.PayLen, s.DChunk = 21000, 40+variant
	case 4: // chunks larger than one 64 KiB worker buffer
		s.PayLen, s.DChunk = 400000, 150000
	case 5: // zlib with big chunks: > 2 buffers per chunk, worker must wait for recycling
		s.Codec, s.PayLen, s.DChunk, s.PayClass = "zlib", 700000, 300000, sim.PayZeroHeavy
	case 6: // tiny file, one chunk
		s.PayLen, s.DChunk = 5+variant, 64
	case 7: // empty file
		s.PayLen, s.DChunk = 0, 64
	}
	s.AtStart = variant == 1
	if variant == 2 {
		s.Page = 64
	}
	return s
}

// ---- the reference model: an in-memory reader ----

type model struct {
	data   []byte
	pos    int64
	limit  int64
	closed bool
}

const (
	opRead = iota
	opSeek
	opSeekRange
	opClose
	opCloseNoWait
)

type op struct {
	kind   int
	n      int   // Read length
	off    int64 // Seek offset / SeekRange low
	whence int
	high   int64
}

func (o op) String() string {
	switch o.kind {
	case opRead:
		return fmt.Sprintf("Read(%d)", o.n)
	case opSeek:
		return fmt.Sprintf("Seek(%d,%d)", o.off, o.whence)
	case opSeekRange:
		return fmt.Sprintf("SeekRange(%d,%d)", o.off, o.high)
	case opClose:
		return "Close()"
	}
	return "CloseWithoutWaiting()"
}

func nearBoundary(t *sim.Tape, f *racFile) int64 {
	size := int64(len(f.payload))
	switch t.Pick(5, 2, 1, 1, 1) {
	case 0:
		b := f.bounds[t.Draw(len(f.bounds))]
		return b + int64(t.Draw(3)) - 1
	case 1:
		if size == 0 {
			return 0
		}
		return int64(t.Draw(int(size)))
	case 2:
		return 0
	case 3:
		return size
	}
	return size + int64(t.Size(100000))
}

func drawOps(t *sim.Tape, f *racFile, opt sim.RunOpt) []op {
	var ops []op
	size := int64(len(f.payload))
	n := 1 + t.Size(14)
	closedAt := -1
	if t.Chance(1, 12) {
		closedAt = t.Draw(n)
	}
	for i := 0; i < n; i++ {
		if i == closedAt {
			ops = append(ops, op{kind: []int{opClose, opCloseNoWait}[t.Draw(2)]})
			continue
		}
		switch t.Pick(5, 3, 3) {
		case 0:
			var l int
			switch t.Pick(4, 3, 2, 1, 1) {
			case 0:
				l = t.Size(3000)
			case 1:
				l = t.Size(200)
			case 2:
				l = 65536 + t.Draw(3) - 1
			case 3:
				l = int(size) + t.Draw(3) - 1
				if l < 0 {
					l = 0
				}
			case 4:
				l = t.Size(300000)
			}
			ops = append(ops, op{kind: opRead, n: l})
		case 1:
			o := op{kind: opSeek}
			switch t.Pick(6, 3, 3, 1) {
			case 0:
				o.whence, o.off = io.SeekStart, nearBoundary(t, f)
			case 1:
				o.whence, o.off = io.SeekCurrent, int64(t.Size(5000))-int64(t.Size(5000))
			case 2:
				o.whence, o.off = io.SeekEnd, -int64(t.Size(int(size)+10))+int64(t.Draw(3))-1
			case 3:
				// API-invalid: bad whence or a clearly negative position.
				if t.Bool() {
					o.whence, o.off = 3+t.Draw(3), 0
				} else {
					o.whence, o.off = io.SeekStart, -1-int64(t.Size(1000))
				}
			}
			ops = append(ops, o)
		case 2:
			lo := nearBoundary(t, f)
			var hi int64
			switch t.Pick(4, 3, 1, 1) {
			case 0:
				hi = lo + int64(t.Size(5000))
			case 1:
				hi = nearBoundary(t, f)
				if hi < lo && t.Chance(9, 10) {
					lo, hi = hi, lo
				}
			case 2:
				hi = lo
			case 3:
				hi = 1 << 62
			}
			if lo < 0 && t.Chance(9, 10) {
				lo = 0
			}
			ops = append(ops, op{kind: opSeekRange, off: lo, high: hi})
		}
	}
	// Every history ends with a close; an occasional second close follows.
	ops = append(ops, op{kind: []int{opClose, opClose, opCloseNoWait}[t.Draw(3)]})
	if t.Chance(1, 10) {
		ops = append(ops, op{kind: opClose})
	}
	return ops
}

type history struct {
	f         *racFile
	ops       []op
	conc      int
	plainRS   bool
	verbose   bool
	failClass string
	failKey   string
	failMsg   string
	calls     int
	inFlight  int64 // probe: seeks issued while the previous Read stopped short of its region
}

// fail and trace are called on the simulated caller goroutine; they only touch
// the history's own fields (read by the harness after simrt.Run returned) and
// the scheduler-owned log.
func (h *history) fail(class, key, format string, a ...interface{}) {
	if h.failClass == "" {
		h.failClass, h.failKey, h.failMsg = class, key, fmt.Sprintf(format, a...)
	}
}

func (h *history) trace(format string, a ...interface{}) {
	if h.verbose {
		simrt.Log(fmt.Sprintf(format, a...))
	}
}

// play executes the history against the real Reader and the model, as the
// single caller goroutine.
func (h *history) play() {
	file := &simFile{data: h.f.bytes}
	r := &rac.Reader{
		CompressedSize: int64(len(h.f.bytes)),
		CodecReaders:   []rac.CodecReader{&racx.StubReader{}, &raczlib.CodecReader{}},
		Concurrency:    h.conc,
	}
	if h.plainRS {
		r.ReadSeeker = seekOnly{file}
	} else {
		r.ReadSeeker = file
	}
	size := int64(len(h.f.payload))
	m := &model{data: h.f.payload, limit: size}
	lastReadShort := false
	for i, p := range h.ops {
		h.calls++
		if m.closed {
			// After Close every call must fail cleanly.
			switch p.kind {
			case opRead:
				n, err := r.Read(make([]byte, p.n))
				h.trace("call %d %v (after close) -> %d, %v", i, p, n, err)
				if err == nil || n != 0 {
					h.fail("call_after_close", "", "call %d %v after Close returned (%d, %v)", i, p, n, err)
					return
				}
			case opSeek:
				_, err := r.Seek(p.off, p.whence)
				h.trace("call %d %v (after close) -> %v", i, p, err)
				if err == nil {
					h.fail("call_after_close", "", "call %d %v after Close returned a nil error", i, p)
					return
				}
			case opSeekRange:
				err := r.SeekRange(p.off, p.high)
				h.trace("call %d %v (after close) -> %v", i, p, err)
				if err == nil {
					h.fail("call_after_close", "", "call %d %v after Close returned a nil error", i, p)
					return
				}
			default:
				var err error
				if p.kind == opClose {
					err = r.Close()
				} else {
					err = r.CloseWithoutWaiting()
				}
				h.trace("call %d %v (again) -> %v", i, p, err)
			}
			continue
		}
		switch p.kind {
		case opRead:
			buf := make([]byte, p.n)
			for j := range buf {
				buf[j] = 0xCD
			}
			n, err := r.Read(buf)
			want := m.limit - m.pos
			if want < 0 {
				want = 0
			}
			if int64(p.n) < want {
				want = int64(p.n)
			}
			h.trace("call %d %v at pos=%d limit=%d -> %d, %v (model: %d)", i, p, m.pos, m.limit, n, err, want)
			if err != nil && err != io.EOF {
				h.fail("read_error", "", "call %d %v at pos=%d limit=%d returned error %v", i, p, m.pos, m.limit, err)
				return
			}
			if int64(n) != want {
				h.fail("read_count", "", "call %d %v at pos=%d limit=%d returned n=%d, the in-memory reader returns %d", i, p, m.pos, m.limit, n, want)
				return
			}
			if n > 0 && !bytes.Equal(buf[:n], m.data[m.pos:m.pos+int64(n)]) {
				h.fail("read_bytes", "", "call %d %v at pos=%d returned wrong bytes (first difference at +%d)", i, p, m.pos, firstDiff(buf[:n], m.data[m.pos:m.pos+int64(n)]))
				return
			}
			for j := n; j < len(buf); j++ {
				if buf[j] != 0xCD {
					h.fail("read_scribble", "", "call %d %v wrote to p[%d] beyond the %d bytes it reported", i, p, j, n)
					return
				}
			}
			m.pos += int64(n)
			atLimit := m.pos >= m.limit
			if err == io.EOF && !atLimit {
				h.fail("eof_early", "", "call %d %v returned io.EOF at pos=%d before the limit %d", i, p, m.pos, m.limit)
				return
			}
			if err == nil && want == 0 && p.n > 0 {
				h.fail("eof_missing", "", "call %d %v at the limit (pos=%d limit=%d) returned (0, nil) instead of io.EOF", i, p, m.pos, m.limit)
				return
			}
			lastReadShort = !atLimit
		case opSeek:
			got, err := r.Seek(p.off, p.whence)
			var np int64
			invalid := false
			switch p.whence {
			case io.SeekStart:
				np = p.off
			case io.SeekCurrent:
				np = m.pos + p.off
			case io.SeekEnd:
				np = size + p.off
			default:
				invalid = true
			}
			if np < 0 {
				invalid = true
			}
			h.trace("call %d %v at pos=%d -> %d, %v", i, p, m.pos, got, err)
			if invalid {
				if err == nil {
					h.fail("invalid_call_accepted", "", "call %d %v (API-invalid) returned a nil error", i, p)
					return
				}
				// No claim about the reader's state after an API-invalid
				// call: close and stop.
				h.finish(r, i)
				return
			}
			if err != nil {
				h.fail("seek_error", seekKey(err), "call %d %v at pos=%d returned error %v", i, p, m.pos, err)
				return
			}
			if got != np {
				h.fail("seek_position", "", "call %d %v at pos=%d returned %d, the in-memory reader returns %d", i, p, m.pos, got, np)
				return
			}
			if lastReadShort && np != m.pos {
				h.inFlight++
			}
			m.pos, m.limit = np, size
			lastReadShort = false
		case opSeekRange:
			err := r.SeekRange(p.off, p.high)
			invalid := p.off > p.high || p.off < 0
			h.trace("call %d %v at pos=%d -> %v", i, p, m.pos, err)
			if invalid {
				if err == nil {
					h.fail("invalid_call_accepted", "", "call %d %v (API-invalid) returned a nil error", i, p)
					return
				}
				h.finish(r, i)
				return
			}
			if err != nil {
				h.fail("seek_error", seekKey(err), "call %d %v at pos=%d returned error %v", i, p, m.pos, err)
				return
			}
			if lastReadShort && p.off != m.pos {
				h.inFlight++
			}
			m.pos, m.limit = p.off, p.high
			if m.limit > size {
				m.limit = size
			}
			lastReadShort = false
		case opClose, opCloseNoWait:
			var err error
			if p.kind == opClose {
				err = r.Close()
			} else {
				err = r.CloseWithoutWaiting()
			}
			h.trace("call %d %v -> %v", i, p, err)
			if err != nil {
				h.fail("close_error", "", "call %d %v returned %v on a reader with no earlier error", i, p, err)
				return
			}
			m.closed = true
		}
	}
}

func seekKey(err error) string {
	if err == io.EOF {
		return "seek_error:EOF"
	}
	return "seek_error:" + err.Error()
}

// finish closes the reader after an API-invalid call (the history ends there).
func (h *history) finish(r *rac.Reader, i int) {
	err := r.Close()
	h.trace("call %d: history ends after the API-invalid call; Close() -> %v", i, err)
}

func firstDiff(a, b []byte) int {
	n := len(a)
	if len(b) < n {
		n = len(b)
	}
	for i := 0; i < n; i++ {
		if a[i] != b[i] {
			return i
		}
	}
	return n
}

var raceLogPos int64

func runC14(t *sim.Tape, opt sim.RunOpt) *sim.Outcome {
	o := &sim.Outcome{}
	spec := drawFileSpec(t, opt)
	f, err := buildFile(spec)
	if err != nil {
		fmt.Fprintln(os.Stderr, "gosim: cannot build base file:", err)
		os.Exit(2)
	}
	h := &history{f: f}
	if opt.Mode == "seq" {
		h.conc = t.Draw(2)
		h.plainRS = h.conc == 0 && t.Bool()
	} else {
		h.conc = []int{2, 2, 3, 4, 8}[t.Pick(4, 2, 2, 2, 1)]
	}
	cfg := simrt.Config{}
	cfg.Policy = t.Pick(3, 2, 2)
	cfg.ChangePoints = t.Draw(6)
	cfg.StickyDen = 2 + t.Draw(30)
	cfg.MaxLatency = []int{0, 3, 50, 1000}[t.Pick(2, 2, 2, 1)]
	if t.Chance(1, 4) {
		cfg.StallG = 1 + t.Draw(h.conc+1)
		cfg.StallFactor = 100
	}
	h.ops = drawOps(t, f, opt)
	nchunks := int64(len(f.bounds))
	cfg.MaxSteps = 200000 + 4000*(nchunks+int64(h.conc))*int64(len(h.ops))

	if opt.Verbose {
		o.Tracef("%v concurrency=%d plainReadSeeker=%v policy=%d latency<=%d stall=g%d", spec, h.conc, h.plainRS, cfg.Policy, cfg.MaxLatency, cfg.StallG)
		strs := make([]string, len(h.ops))
		for i, p := range h.ops {
			strs[i] = p.String()
		}
		o.Tracef("history: %s", strings.Join(strs, "; "))
		cfg.Verbose = true
		h.verbose = true
	}
	{
		strs := make([]string, len(h.ops))
		for i, p := range h.ops {
			strs[i] = p.String()
		}
		o.Sample = fmt.Sprintf("%v conc=%d policy=%d: %s", spec, h.conc, cfg.Policy, strings.Join(strs, "; "))
	}

	res := simrt.Run(t, cfg, h.play)
	o.Trace = append(o.Trace, res.Log...)
	if h.failClass != "" {
		o.Fail(h.failClass, h.failKey, "%s", h.failMsg)
	}

	o.Steps, o.Ticks, o.States = res.Steps, res.Ticks, res.States
	fp := sim.NewFP()
	fp.Add(res.FP)
	fp.AddStr(o.Sample.(string))
	o.FP = fp.Sum()
	o.Nontrivial = res.Goroutines >= 2 && res.Switches >= 2 || (opt.Mode == "seq" && len(h.ops) >= 3)
	o.ProbeN("goroutines", int64(res.Goroutines))
	o.ProbeN("context_switches", res.Switches)
	o.ProbeN("calls", int64(h.calls))
	o.ProbeN("seek_with_work_in_flight", h.inFlight)
	if res.MaxBlocked >= h.conc && h.conc >= 2 {
		o.Probe("all_workers_blocked_at_once")
	}
	o.Probe(fmt.Sprintf("policy_%d", cfg.Policy))
	o.Probe(fmt.Sprintf("concurrency_%d", h.conc))
	if cfg.StallG != 0 {
		o.Fault("stalled_goroutine")
	}
	if cfg.MaxLatency > 0 {
		o.Fault("disk_latency")
	}

	switch {
	case o.Class != "":
		// a model mismatch was already recorded by the caller
	case res.Panic != "":
		o.Fail("panic", "panic:"+res.PanicG[:strings.Index(res.PanicG, "#")], "goroutine %s panicked: %s; %s", res.PanicG, res.Panic, o.Sample)
	case res.Deadlock != "":
		o.Fail("deadlock", "", "no goroutine can make progress while the caller is inside call %d of [%s]: %s", h.calls-1, o.Sample, res.Deadlock)
	case res.Livelock:
		o.Fail("livelock", "", "step budget %d exhausted during call %d of [%s]", cfg.MaxSteps, h.calls-1, o.Sample)
	case len(res.Leaked) > 0:
		o.Fail("goroutine_leak", "", "after the history ended and the system went quiescent, goroutines %v are still blocked (%s); %s", res.Leaked, res.LeakInfo, o.Sample)
	}
	if o.Class == "" && simrt.RaceEnabled {
		if n := res.Races; n > raceSeen {
			raceSeen = n
			o.Fail("data_race", "", "the race detector reported a data race under channel-induced ordering only (report on stderr / GORACE log); %s", o.Sample)
		}
	}
	if o.Class != "" && o.Detail != "" && !strings.Contains(o.Detail, "file{") {
		o.Detail += "; " + o.Sample.(string)
	}
	return o
}

var raceSeen int
