// Engine B ("disksim"): simulated storage under the RAC writer (C13) and
// hostile stored bytes under the RAC readers (C15).
package main

import "verif/sim"

func main() {
	sim.WorkerMain(sim.EngineSpec{
		Name: "disksim",
		Props: map[string]sim.PropSpec{
			"C13": {Run: runC13, Modes: []string{"faultfree", "faults"}},
			"C15": {Run: runC15, Modes: []string{"written", "graph", "written"}},
		},
	})
}
