package main

// C13 — RAC writing then reading returns the original bytes, the file is
// spec-valid, and storage failures are reported and stay reported.
//
// One run = one drawn workload (payload, partition into Write calls, codec,
// chunk sizing, page size, index location, temp-file flavour, resources),
// executed (a) fault-free against the structural validator, the independent
// decoder and rac.Reader, and then (b) once per (underlying storage operation,
// applicable fault kind): every single-fault position of that workload.

import (
	"bytes"
	"errors"
	"fmt"
	"io"

	"github.com/google/wuffs/lib/rac"
	"github.com/google/wuffs/lib/raclz4"
	"github.com/google/wuffs/lib/raczlib"
	"github.com/google/wuffs/lib/raczstd"

	"os"
	"verif/racx"
	"verif/sim"
)

// ---- simulated storage ----

const (
	opWWrite = iota // Writer.Write
	opTWrite        // TempFile.Write
	opTRead         // TempFile.Read
	opTSeek         // TempFile.Seek
)

var opNames = []string{"writer.Write", "temp.Write", "temp.Read", "temp.Seek"}

const (
	fNone = iota
	fWriteErr
	fWriteTorn
	fDiskFull
	fReadErr
	fReadPartialErr
	fReadEarlyEOF
	fSeekErr
)

var faultNames = []string{"none", "write_error", "torn_write", "disk_full", "read_error", "read_partial_then_error", "temp_lost_suffix", "seek_error"}

func faultKindsFor(op int) []int {
	switch op {
	case opWWrite, opTWrite:
		return []int{fWriteErr, fWriteTorn, fDiskFull}
	case opTRead:
		return []int{fReadErr, fReadPartialErr, fReadEarlyEOF}
	case opTSeek:
		return []int{fSeekErr}
	}
	return nil
}

var errInjected = errors.New("sim: injected storage failure")
var errNoSpace = errors.New("sim: no space left on device")

type simDisk struct {
	ops     []int       // op type of every underlying operation so far
	plan    map[int]int // op index -> fault kind
	fired   []int       // op indexes at which a fault fired
	firedK  []int
	full    bool
	lostEOF bool
	out     []byte // bytes accepted by Writer.Write
	call    int    // index of the public call in progress
	firedIn []int  // public call index during which each fault fired
	trace   func(string, ...interface{})
}

func (d *simDisk) begin(op int) (idx int, kind int) {
	idx = len(d.ops)
	d.ops = append(d.ops, op)
	kind = d.plan[idx]
	if kind != fNone {
		d.fired = append(d.fired, idx)
		d.firedK = append(d.firedK, kind)
		d.firedIn = append(d.firedIn, d.call)
	}
	return idx, kind
}

func (d *simDisk) write(op int, dst *[]byte, at int, p []byte) (int, error) {
	idx, kind := d.begin(op)
	if d.full && kind == fNone {
		if d.trace != nil {
			d.trace("  op %d %s(%d bytes) -> ENOSPC (disk stays full)", idx, opNames[op], len(p))
		}
		return 0, errNoSpace
	}
	n := len(p)
	var err error
	switch kind {
	case fWriteErr:
		n, err = 0, errInjected
	case fWriteTorn:
		n, err = len(p)/2, errInjected
	case fDiskFull:
		d.full = true
		n, err = len(p)/3, errNoSpace
	}
	if at < 0 {
		*dst = append(*dst, p[:n]...)
	} else {
		for len(*dst) < at+n {
			*dst = append(*dst, 0)
		}
		copy((*dst)[at:], p[:n])
	}
	if d.trace != nil {
		d.trace("  op %d %s(%d bytes) -> %d, %v", idx, opNames[op], len(p), n, err)
	}
	return n, err
}

type simWriter struct{ d *simDisk }

func (w *simWriter) Write(p []byte) (int, error) { return w.d.write(opWWrite, &w.d.out, -1, p) }

// simTempBuf is the bytes.Buffer-like temp file: independent read and write
// cursors, no Seek method.
type simTempBuf struct {
	d    *simDisk
	data []byte
	rpos int
	// readMax caps the bytes returned by one Read (short reads are legal).
	readMax int
}

func (t *simTempBuf) Write(p []byte) (int, error) { return t.d.write(opTWrite, &t.data, -1, p) }
func (t *simTempBuf) Read(p []byte) (int, error) {
	return tempRead(t.d, t.data, &t.rpos, t.readMax, p)
}

func tempRead(d *simDisk, data []byte, pos *int, readMax int, p []byte) (int, error) {
	idx, kind := d.begin(opTRead)
	if d.lostEOF {
		return 0, io.EOF
	}
	n := len(data) - *pos
	if n < 0 {
		n = 0
	}
	if n > len(p) {
		n = len(p)
	}
	if readMax > 0 && n > readMax {
		n = readMax
	}
	var err error
	switch kind {
	case fReadErr:
		n, err = 0, errInjected
	case fReadPartialErr:
		n, err = n/2, errInjected
	case fReadEarlyEOF:
		if len(data)-*pos <= 0 {
			// Nothing left to lose: an EOF here is the truth, not a fault.
			d.fired, d.firedK, d.firedIn = d.fired[:len(d.fired)-1], d.firedK[:len(d.firedK)-1], d.firedIn[:len(d.firedIn)-1]
		}
		d.lostEOF = true
		n, err = 0, io.EOF
	default:
		if n == 0 && len(p) > 0 {
			err = io.EOF
		}
	}
	copy(p, data[*pos:*pos+n])
	*pos += n
	if d.trace != nil {
		d.trace("  op %d temp.Read(%d) -> %d, %v", idx, len(p), n, err)
	}
	return n, err
}

// simTempFile is the os.File-like temp file: one cursor, Seek, and a non-zero
// initial offset (bytes that were in the file before the rac.Writer got it).
type simTempFile struct {
	d       *simDisk
	data    []byte
	pos     int
	readMax int
}

func (t *simTempFile) Write(p []byte) (int, error) {
	n, err := t.d.write(opTWrite, &t.data, t.pos, p)
	t.pos += n
	return n, err
}
func (t *simTempFile) Read(p []byte) (int, error) {
	return tempRead(t.d, t.data, &t.pos, t.readMax, p)
}
func (t *simTempFile) Seek(off int64, whence int) (int64, error) {
	idx, kind := t.d.begin(opTSeek)
	if kind == fSeekErr {
		if t.d.trace != nil {
			t.d.trace("  op %d temp.Seek(%d,%d) -> error", idx, off, whence)
		}
		return 0, errInjected
	}
	switch whence {
	case io.SeekStart:
	case io.SeekCurrent:
		off += int64(t.pos)
	case io.SeekEnd:
		off += int64(len(t.data))
	}
	if off < 0 {
		return 0, errors.New("sim: negative seek")
	}
	t.pos = int(off)
	if t.d.trace != nil {
		t.d.trace("  op %d temp.Seek -> %d", idx, off)
	}
	return off, nil
}

// ---- workload ----

type c13Workload struct {
	Codec      string
	CChunk     uint64
	DChunk     uint64
	PageSize   uint64
	AtStart    bool
	TempKind   int // 0 buffer-like, 1 file-like
	TempBase   int
	ReadMax    int
	NumRes     int
	Tertiary   bool
	PayClass   int
	PayLen     int
	PaySeed    uint32
	Writes     []int
	ExtraClose bool
	payload    []byte
	resources  [][]byte
}

func (w *c13Workload) String() string {
	ws := fmt.Sprint(w.Writes)
	if len(w.Writes) > 12 {
		ws = fmt.Sprintf("%v...(%d writes)", w.Writes[:12], len(w.Writes))
	}
	return fmt.Sprintf("codec=%s cchunk=%d dchunk=%d page=%d indexAtStart=%v temp=%d/base=%d/readmax=%d res=%d ter=%v payload=class%d/len%d/seed%d writes=%s",
		w.Codec, w.CChunk, w.DChunk, w.PageSize, w.AtStart, w.TempKind, w.TempBase, w.ReadMax, w.NumRes, w.Tertiary, w.PayClass, w.PayLen, w.PaySeed, ws)
}

func drawC13Workload(t *sim.Tape, opt sim.RunOpt, small bool) *c13Workload {
	w := &c13Workload{}
	big := opt.Tier == "thorough"
	w.Codec = []string{"stub", "zlib", "stub", "zlib", "stub", "lz4", "zstd"}[t.Pick(3, 3, 1, 1, 1, 1, 1)]
	maxLen := 40000
	if w.Codec != "stub" {
		maxLen = 12000
	}
	if small {
		maxLen /= 4
	}
	if big && !small && t.Chance(1, 10) {
		maxLen *= 8
	}
	w.PayClass = []int{sim.PayZeroHeavy, sim.PayRandom, sim.PayText, sim.PayRepeat, sim.PayZero, sim.PayFF}[t.Pick(6, 3, 3, 2, 1, 1)]
	w.PayLen = t.Size(maxLen)
	w.PaySeed = uint32(t.Draw(1 << 30))
	w.payload = sim.GenBytes(uint64(w.PaySeed), w.PayLen, w.PayClass)

	cmode := (w.Codec == "stub" || w.Codec == "zlib") && t.Chance(1, 2)
	if cmode {
		lo := 5
		if w.Codec == "zlib" {
			lo = 24
		}
		w.CChunk = uint64(lo + t.Size(3000))
	} else {
		switch t.Pick(4, 2, 1) {
		case 0:
			w.DChunk = uint64(1 + t.Size(4000))
		case 1:
			w.DChunk = uint64(1 + t.Size(70000))
		case 2:
			// default DChunkSize (both zero)
		}
		// Force multi-level indexes now and then: > 255 chunks.
		if w.Codec == "stub" && t.Chance(1, 4) && w.PayLen > 600 {
			w.DChunk = uint64(1 + t.Draw(w.PayLen/300+1))
		}
	}
	// Cost control (harness economics only): real compressors are called once
	// per chunk per candidate dictionary, and fault enumeration re-executes
	// the whole workload once per fault point.
	if w.Codec != "stub" {
		maxChunks := 120
		if small {
			maxChunks = 10
		}
		if w.Codec != "zlib" {
			// cgo lz4/zstd set up a compression context per call (~1 ms).
			maxChunks /= 3
		}
		min := uint64(w.PayLen/maxChunks + 1)
		if w.DChunk != 0 && w.DChunk < min {
			w.DChunk = min
		}
		if w.CChunk != 0 && w.CChunk < min+24 {
			w.CChunk = min + 24
		}
	}
	w.PageSize = []uint64{0, 0, 16, 64, 512, 4096, 2}[t.Pick(3, 1, 2, 2, 1, 1, 1)]
	w.AtStart = t.Bool()
	if w.AtStart {
		w.TempKind = t.Draw(2)
		if w.TempKind == 1 {
			w.TempBase = t.Size(100)
		}
		if t.Chance(1, 3) {
			w.ReadMax = 1 + t.Size(600)
		}
	}
	if t.Chance(1, 3) {
		w.NumRes = 1 + t.Draw(3)
		w.Tertiary = w.Codec == "stub" && t.Bool()
		for i := 0; i < w.NumRes; i++ {
			n := 1 + t.Size(300)
			if w.Codec == "zlib" && t.Bool() && w.PayLen > 0 {
				// A dictionary that actually helps: a slice of the payload.
				off := t.Draw(w.PayLen)
				end := off + 64 + t.Size(2000)
				if end > w.PayLen {
					end = w.PayLen
				}
				w.resources = append(w.resources, append([]byte(nil), w.payload[off:end]...))
				continue
			}
			w.resources = append(w.resources, sim.GenBytes(uint64(t.Draw(1<<20)), n, sim.PayText))
		}
	}
	// Partition into Write calls.
	rem := w.PayLen
	style := t.Pick(2, 2, 3, 1)
	fixed := 1 + t.Size(5000)
	for rem > 0 && len(w.Writes) < 4000 {
		n := rem
		switch style {
		case 1:
			n = fixed
		case 2:
			n = t.Size(2000)
			if t.Chance(1, 8) {
				n = t.Size(40000)
			}
		case 3:
			n = 1 + t.Draw(3)
		}
		if n > rem {
			n = rem
		}
		w.Writes = append(w.Writes, n)
		rem -= n
	}
	if rem > 0 {
		w.Writes = append(w.Writes, rem)
	}
	w.ExtraClose = t.Chance(1, 4)
	return w
}

type callResult struct {
	name string
	n    int
	err  error
}

type c13Exec struct {
	disk     *simDisk
	results  []callResult
	panicked interface{}
	tempData []byte
}

func (w *c13Workload) codecWriter() rac.CodecWriter {
	switch w.Codec {
	case "zlib":
		return &raczlib.CodecWriter{}
	case "lz4":
		return &raclz4.CodecWriter{}
	case "zstd":
		return &raczstd.CodecWriter{}
	}
	return &racx.StubWriter{UseTertiary: w.Tertiary}
}

// execute drives the real rac.Writer over the simulated storage.
func (w *c13Workload) execute(plan map[int]int, trace func(string, ...interface{})) (ex *c13Exec) {
	d := &simDisk{plan: plan, trace: trace}
	ex = &c13Exec{disk: d}
	rw := &rac.Writer{
		Writer:        &simWriter{d},
		CodecWriter:   w.codecWriter(),
		CPageSize:     w.PageSize,
		CChunkSize:    w.CChunk,
		DChunkSize:    w.DChunk,
		ResourcesData: w.resources,
	}
	var tb *simTempBuf
	var tf *simTempFile
	if w.AtStart {
		rw.IndexLocation = rac.IndexLocationAtStart
		if w.TempKind == 0 {
			tb = &simTempBuf{d: d, readMax: w.ReadMax}
			rw.TempFile = tb
		} else {
			tf = &simTempFile{d: d, readMax: w.ReadMax, data: bytes.Repeat([]byte{0xEE}, w.TempBase), pos: w.TempBase}
			rw.TempFile = tf
		}
	}
	defer func() {
		if r := recover(); r != nil {
			ex.panicked = r
		}
	}()
	off := 0
	for i, n := range w.Writes {
		d.call = len(ex.results)
		if trace != nil {
			trace("call %d: Write(%d bytes at %d)", d.call, n, off)
		}
		// The caller may reuse its buffer after Write returns: hand the
		// Writer a private copy and scribble over it afterwards.
		p := append([]byte(nil), w.payload[off:off+n]...)
		got, err := rw.Write(p)
		for j := range p {
			p[j] = 0xA5
		}
		ex.results = append(ex.results, callResult{fmt.Sprintf("Write#%d", i), got, err})
		if trace != nil {
			trace("  -> %d, %v", got, err)
		}
		off += n
	}
	closes := 1
	if w.ExtraClose {
		closes = 2
	}
	for i := 0; i < closes; i++ {
		d.call = len(ex.results)
		err := rw.Close()
		ex.results = append(ex.results, callResult{fmt.Sprintf("Close#%d", i), 0, err})
		if trace != nil {
			trace("call %d: Close() -> %v", d.call, err)
		}
	}
	return ex
}

func codecReaders() []rac.CodecReader {
	return []rac.CodecReader{&racx.StubReader{}, &raczlib.CodecReader{}, &raclz4.CodecReader{}, &raczstd.CodecReader{}}
}

func runC13(t *sim.Tape, opt sim.RunOpt) *sim.Outcome {
	o := &sim.Outcome{}
	faults := opt.Mode == "faults"
	w := drawC13Workload(t, opt, faults)
	var trace func(string, ...interface{})
	if opt.Verbose {
		trace = o.Tracef
		o.Tracef("workload: %s", w)
	}
	fp := sim.NewFP()
	fp.AddStr(w.String())
	fp.Add(sim.Hash64(w.payload))
	for _, n := range w.Writes {
		fp.Add(uint64(n))
	}
	o.FP = fp.Sum()
	o.Sample = w.String()

	// (a) fault-free.
	ex := w.execute(nil, trace)
	o.Steps += int64(len(ex.disk.ops))
	if ex.panicked != nil {
		o.Fail("panic", "panic:faultfree", "rac.Writer panicked without any fault: %v", ex.panicked)
		return o
	}
	closeErr := ex.results[len(w.Writes)].err
	anyWriteErr := false
	for i := range w.Writes {
		r := ex.results[i]
		if r.err != nil {
			anyWriteErr = true
		} else if r.n != w.Writes[i] {
			o.Fail("short_write_no_error", "", "%s returned n=%d for %d bytes with a nil error", r.name, r.n, w.Writes[i])
			return o
		}
	}
	if anyWriteErr && closeErr == nil {
		o.Fail("error_not_sticky", "faultfree:write_error_then_close_nil", "a Write failed but Close returned nil (workload %s)", w)
		return o
	}
	if len(w.Writes) >= 2 {
		o.Nontrivial = true
	}
	if closeErr != nil {
		o.Probe("faultfree_close_error")
		o.Probe("faultfree_close_error: " + closeErr.Error())
	} else {
		o.Probe("faultfree_close_ok")
		file := ex.disk.out
		sf, err := racx.ValidateRAC(file, 1<<22)
		if err != nil {
			o.Fail("spec_invalid", "", "Close returned nil but the file (%d bytes) fails RAC structural validation: %v; workload %s", len(file), err, w)
			return o
		}
		if sf.DSize != int64(len(w.payload)) {
			o.Fail("roundtrip_size", "", "DFileSize %d != payload length %d; workload %s", sf.DSize, len(w.payload), w)
			return o
		}
		if sf.RootAtStart != w.AtStart && len(w.payload) > 0 {
			o.Fail("index_location", "", "root node at start=%v but IndexLocationAtStart=%v", sf.RootAtStart, w.AtStart)
			return o
		}
		if sf.MaxDepth >= 1 {
			o.Probe("multi_level_index")
		}
		if sf.MaxDepth >= 2 {
			o.Probe("three_level_index")
		}
		o.ProbeN("leaves", int64(len(sf.Leaves)))
		dec, ok, err := racx.DecodeSpec(file, sf)
		if err != nil {
			o.Fail("spec_decode", "", "independent decode failed: %v; workload %s", err, w)
			return o
		}
		if ok {
			o.Probe("independent_decode")
			if !bytes.Equal(dec, w.payload) {
				o.Fail("roundtrip_mismatch", "roundtrip_mismatch:independent", "independent decode differs from the payload at byte %d (len %d vs %d); workload %s", firstDiff(dec, w.payload), len(dec), len(w.payload), w)
				return o
			}
		}
		if !ok && w.Codec == "zstd" && len(sf.Leaves) > 0 {
			// Zstandard: a sample of leaves (first, last, a few drawn) is
			// decompressed by the system zstd tool and compared with the payload
			// bytes of that leaf's decompressed range. (Not LZ4: the
			// specification does not define its chunk format.)
			pick := map[int]bool{0: true, len(sf.Leaves) - 1: true}
			for k := 0; k < 3; k++ {
				pick[t.Draw(len(sf.Leaves))] = true
			}
			for li := range sf.Leaves {
				if !pick[li] {
					continue
				}
				l := sf.Leaves[li]
				got, sup, eerr := racx.ExternalDecodeLeaf(file, l, os.TempDir())
				if !sup {
					o.Probe("external_decode_unavailable")
					continue
				}
				if eerr != nil {
					o.Fail("spec_decode", "spec_decode:external:"+w.Codec, "leaf %d of %d: %v; workload %s", li, len(sf.Leaves), eerr, w)
					return o
				}
				want := w.payload[l.D.Lo:l.D.Hi]
				// A codec may produce fewer bytes than the DRange (the writer
				// strips trailing zeroes): the rest is zeroes. More is wrong.
				if len(got) > len(want) {
					o.Fail("spec_decode", "spec_decode:external:"+w.Codec, "leaf %d of %d: the chunk's frame decodes to %d bytes, more than its DRange size %d; workload %s", li, len(sf.Leaves), len(got), len(want), w)
					return o
				}
				full := append(append([]byte(nil), got...), make([]byte, max0(len(want)-len(got)))...)
				if !bytes.Equal(full, want) {
					o.Fail("roundtrip_mismatch", "roundtrip_mismatch:external:"+w.Codec, "leaf %d of %d (decompressed range [%d,%d)): the system %s tool decodes the chunk to bytes that differ from the payload at offset %d (len %d vs %d); workload %s", li, len(sf.Leaves), l.D.Lo, l.D.Hi, w.Codec, firstDiff(full, want), len(got), len(want), w)
					return o
				}
				o.Probe("external_leaf_decode_" + w.Codec)
			}
		}
		for _, l := range sf.Leaves {
			if l.S.Size() > 0 {
				o.Probe("leaf_with_secondary")
			}
			if l.T.Size() > 0 {
				o.Probe("leaf_with_tertiary")
			}
			if l.P.Size() == 0 {
				o.Probe("leaf_with_empty_primary")
			}
		}
		// rac.Reader round trip (sequential; C14 owns the concurrent reader).
		rr := &rac.Reader{ReadSeeker: bytes.NewReader(file), CompressedSize: int64(len(file)), CodecReaders: codecReaders()}
		got, rerr := io.ReadAll(rr)
		if rerr != nil {
			o.Fail("reader_error", "", "rac.Reader failed on the written file: %v; workload %s", rerr, w)
			return o
		}
		if !bytes.Equal(got, w.payload) {
			o.Fail("roundtrip_mismatch", "roundtrip_mismatch:rac.Reader", "rac.Reader output differs from the payload at byte %d (len %d vs %d); workload %s", firstDiff(got, w.payload), len(got), len(w.payload), w)
			return o
		}
	}
	if !faults {
		return o
	}

	// (b) every single-fault position of this workload.
	ops := ex.disk.ops
	type fpt struct{ k, kind int }
	var points []fpt
	for k, op := range ops {
		for _, kind := range faultKindsFor(op) {
			points = append(points, fpt{k, kind})
		}
	}
	o.ProbeN("fault_points_enumerated", int64(len(points)))
	// How many single-fault positions one run may enumerate before it falls
	// back to a tape-drawn sample of them (always reported as sampled). The
	// quick tier is sized by work, not by the clock, so that the number of
	// evaluations is a function of (seed, tier) alone.
	cap := 2500
	if opt.Tier != "thorough" {
		cap = 600
	}
	if w.Codec != "stub" && cap > 400 {
		cap = 400
	}
	if w.Codec != "stub" && opt.Tier != "thorough" {
		cap = 150
	}
	if len(points) > cap {
		// Too many for one run: keep a tape-drawn sample (reported, so the
		// evidence never claims full enumeration for such a workload).
		o.Probe("enumeration_sampled")
		var sel []fpt
		for i := 0; i < cap; i++ {
			sel = append(sel, points[t.Draw(len(points))])
		}
		points = sel
	} else {
		o.Probe("enumeration_complete")
	}
	// Drawn double faults.
	type plan2 struct{ a, b fpt }
	var doubles []plan2
	if len(points) >= 2 {
		for i := 0; i < 8; i++ {
			a := points[t.Draw(len(points))]
			b := points[t.Draw(len(points))]
			if a.k != b.k {
				doubles = append(doubles, plan2{a, b})
			}
		}
	}
	check := func(plan map[int]int, desc string) bool {
		fx := w.execute(plan, nil)
		o.Steps += int64(len(fx.disk.ops))
		o.ProbeN("fault_runs", 1)
		if len(fx.disk.fired) == 0 {
			o.Probe("fault_never_reached")
			return true
		}
		for _, k := range fx.disk.firedK {
			o.Fault(faultNames[k])
		}
		bad := func(class, key, f string, a ...interface{}) bool {
			o.Fail(class, key, "%s; fault %s; workload %s", fmt.Sprintf(f, a...), desc, w)
			if opt.Verbose {
				o.Tracef("--- failing faulty execution (%s) ---", desc)
				w.execute(plan, o.Tracef)
			}
			return false
		}
		if fx.panicked != nil {
			return bad("panic", "panic:under_fault", "rac.Writer panicked: %v", fx.panicked)
		}
		first := fx.disk.firedIn[0]
		for i := first; i < len(fx.results); i++ {
			if fx.results[i].err == nil {
				which := "the call during which the fault fired"
				if i > first {
					which = "a later call"
				}
				return bad("error_not_sticky", "error_not_sticky:"+faultNames[fx.disk.firedK[0]]+":"+opNames[fx.disk.ops[fx.disk.fired[0]]],
					"%s (%s, call %d) returned a nil error after the fault fired in call %d (%s)",
					fx.results[i].name, which, i, first, fx.results[first].name)
			}
		}
		return true
	}
	for _, p := range points {
		if !check(map[int]int{p.k: p.kind}, fmt.Sprintf("%s at op %d (%s)", faultNames[p.kind], p.k, opNames[ops[p.k]])) {
			return o
		}
	}
	for _, d := range doubles {
		if !check(map[int]int{d.a.k: d.a.kind, d.b.k: d.b.kind}, fmt.Sprintf("%s at op %d + %s at op %d", faultNames[d.a.kind], d.a.k, faultNames[d.b.kind], d.b.k)) {
			return o
		}
	}
	if len(points) > 0 {
		o.Nontrivial = true
	}
	return o
}

func firstDiff(a, b []byte) int {
	n := len(a)
	if len(b) < n {
		n = len(b)
	}
	for i := 0; i < n; i++ {
		if a[i] != b[i] {
			return i
		}
	}
	return n
}

func max0(x int) int {
	if x < 0 {
		return 0
	}
	return x
}
