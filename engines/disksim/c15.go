package main

// C15 — RAC readers survive hostile files.
//
// One run = one byte string presented as a RAC file: a valid file (written by
// the real rac.Writer, or a node graph assembled directly from the spec) that
// was damaged *before open* (the bytes never change under an open reader),
// served by a simulated read-only disk that counts every Seek/Read/ReadAt.
// That operation count is the deterministic "work clock": it replaces
// wall-clock watchdogs, and exhausting the per-call budget makes the disk fail
// the operation, which is how a looping reader is stopped and reported.

import (
	"bytes"
	"errors"
	"fmt"
	"hash/crc32"
	"io"
	"runtime"
	"strings"

	"github.com/google/wuffs/lib/rac"

	"verif/racx"
	"verif/sim"
)

var errBudget = errors.New("sim: work budget exhausted")

// roDisk is the simulated read-only storage.
type roDisk struct {
	data     []byte
	pos      int64
	callOps  int64
	budget   int64
	blown    bool
	totalOps int64
	bytes    int64
}

func (d *roDisk) op() error {
	d.callOps++
	d.totalOps++
	if d.callOps > d.budget {
		d.blown = true
		return errBudget
	}
	return nil
}

func (d *roDisk) Seek(off int64, whence int) (int64, error) {
	if err := d.op(); err != nil {
		return 0, err
	}
	switch whence {
	case io.SeekStart:
	case io.SeekCurrent:
		off += d.pos
	case io.SeekEnd:
		off += int64(len(d.data))
	default:
		return 0, errors.New("sim: bad whence")
	}
	if off < 0 {
		return 0, errors.New("sim: negative seek")
	}
	d.pos = off
	return off, nil
}

func (d *roDisk) Read(p []byte) (int, error) {
	if err := d.op(); err != nil {
		return 0, err
	}
	if d.pos >= int64(len(d.data)) {
		return 0, io.EOF
	}
	n := copy(p, d.data[d.pos:])
	d.pos += int64(n)
	d.bytes += int64(n)
	return n, nil
}

// roDiskAt adds io.ReaderAt (the readers then go through lib/readerat).
type roDiskAt struct{ roDisk }

func (d *roDiskAt) ReadAt(p []byte, off int64) (int, error) {
	if err := d.op(); err != nil {
		return 0, err
	}
	if off < 0 {
		return 0, errors.New("sim: negative offset")
	}
	if off >= int64(len(d.data)) {
		return 0, io.EOF
	}
	n := copy(p, d.data[off:])
	d.bytes += int64(n)
	if n < len(p) {
		return n, io.EOF
	}
	return n, nil
}

// ---- building and damaging files ----

func putU48(b []byte, v int64) {
	for i := 0; i < 6; i++ {
		b[i] = byte(v >> (8 * uint(i)))
	}
}

func fixChecksum(node []byte) {
	sum := crc32.ChecksumIEEE(node[6:])
	s := uint16(sum) ^ uint16(sum>>16)
	node[4], node[5] = byte(s), byte(s>>8)
}

// gElem is one element of a hand-assembled node.
type gElem struct {
	dsize int64
	ttag  uint8
	stag  uint8
	cptr  int64
	clen  uint8
}

func buildNode(elems []gElem, codecByte uint8, version uint8, cptrMax int64) []byte {
	a := len(elems)
	b := make([]byte, 16*a+16)
	b[0], b[1], b[2], b[3] = 0x72, 0xC3, 0x63, byte(a)
	d := int64(0)
	for i, e := range elems {
		if i > 0 {
			putU48(b[8*i:], d)
		}
		b[8*i+7] = e.ttag
		d += e.dsize
		base := 8*a + 8 + 8*i
		putU48(b[base:], e.cptr)
		b[base+6] = e.clen
		b[base+7] = e.stag
	}
	putU48(b[8*a:], d)
	b[8*a+7] = codecByte
	putU48(b[16*a+8:], cptrMax)
	b[16*a+14] = version
	b[16*a+15] = byte(a)
	fixChecksum(b)
	return b
}

// graphSpec is a file assembled directly from the spec: a chain of branch
// nodes, each with one live branch child among empty siblings, ending either in
// a real leaf or pointing back into the chain (a cycle, which the spec's
// anti-loop rule forbids).
type graphSpec struct {
	N        int     // chain length
	Pre      []int   // empty leaves before the live element
	Post     []int   // empty leaves after it
	D        []int64 // DPtrMax per level (non-increasing)
	Cyc      bool
	Back     int  // cycle target
	Long     bool // long (stub) codec, else Zeroes
	Reversed bool // children at lower COffsets, root at the end (spec-legal even with equal D)
}

func (g graphSpec) String() string {
	return fmt.Sprintf("graph{n=%d D0=%d Dlast=%d cyc=%v back=%d long=%v reversed=%v}", g.N, g.D[0], g.D[g.N-1], g.Cyc, g.Back, g.Long, g.Reversed)
}

func drawGraph(t *sim.Tape) graphSpec {
	g := graphSpec{N: 1 + t.Size(12)}
	if t.Chance(1, 6) {
		g.N = 1 + t.Size(120)
	}
	g.Cyc = t.Pick(2, 3) == 1
	if g.Cyc {
		g.Back = t.Draw(g.N)
	}
	g.Long = t.Bool()
	g.Reversed = t.Bool()
	d := int64(1 + t.Size(5000))
	shrink := !g.Cyc && t.Bool()
	for i := 0; i < g.N; i++ {
		g.Pre = append(g.Pre, t.Draw(3))
		g.Post = append(g.Post, t.Draw(3))
		g.D = append(g.D, d)
		if shrink && d > 1 {
			d -= int64(t.Draw(2))
		}
	}
	return g
}

func (g graphSpec) assemble() []byte {
	payload := []byte{5, 0, 0, 0, 'h', 'e', 'l', 'l', 'o'} // one stub-codec chunk
	arity := make([]int, g.N)
	for i := 0; i < g.N; i++ {
		arity[i] = g.Pre[i] + 1 + g.Post[i]
		if g.Long {
			arity[i]++
		}
		if i+1 < g.N && g.D[i+1] != g.D[i] {
			arity[i]++ // zero-filled sibling taking the remainder
		}
	}
	off := make([]int64, g.N)
	var total, payOff int64
	if g.Reversed {
		payOff = 4
		o := payOff + int64(len(payload))
		for i := g.N - 1; i >= 0; i-- {
			off[i] = o
			o += int64(16*arity[i] + 16)
		}
		total = o
	} else {
		o := int64(0)
		for i := 0; i < g.N; i++ {
			off[i] = o
			o += int64(16*arity[i] + 16)
		}
		payOff = o
		total = o + int64(len(payload))
	}
	file := make([]byte, total)
	if g.Reversed {
		copy(file, []byte{0x72, 0xC3, 0x63, 0x00})
	}
	copy(file[payOff:], payload)
	codecByte := uint8(0x00)
	if g.Long {
		codecByte = 0x80
	}
	for i := 0; i < g.N; i++ {
		var elems []gElem
		if g.Long {
			elems = append(elems, gElem{ttag: 0xFD, cptr: int64(racx.StubCodecID & 0xFFFFFFFFFFFF), clen: uint8(racx.StubCodecID >> 48), stag: 0})
		}
		for k := 0; k < g.Pre[i]; k++ {
			elems = append(elems, gElem{ttag: 0xFF, stag: 0xFF, cptr: payOff})
		}
		live := gElem{dsize: g.D[i], ttag: 0xFF, stag: 0xFF, cptr: payOff}
		if i+1 < g.N {
			live.ttag, live.cptr, live.dsize = 0xFE, off[i+1], g.D[i+1]
		} else if g.Cyc {
			live.ttag, live.cptr = 0xFE, off[g.Back]
		}
		elems = append(elems, live)
		if i+1 < g.N && g.D[i+1] != g.D[i] {
			elems = append(elems, gElem{dsize: g.D[i] - g.D[i+1], ttag: 0xFF, stag: 0xFF, cptr: payOff})
		}
		for k := 0; k < g.Post[i]; k++ {
			elems = append(elems, gElem{ttag: 0xFF, stag: 0xFF, cptr: payOff})
		}
		copy(file[off[i]:], buildNode(elems, codecByte, 1, total))
	}
	return file
}

// findNodes returns the offsets of all byte positions holding a checksummed
// branch node (what a reader would accept as a node).
func findNodes(file []byte) []int64 {
	var out []int64
	for i := 0; i+32 <= len(file); i++ {
		if file[i] == 0x72 && file[i+1] == 0xC3 && file[i+2] == 0x63 && file[i+3] != 0 {
			a := int(file[i+3])
			size := 16*a + 16
			if i+size <= len(file) && file[i+size-1] == byte(a) {
				sum := crc32.ChecksumIEEE(file[i+6 : i+size])
				s := uint16(sum) ^ uint16(sum>>16)
				if file[i+4] == byte(s) && file[i+5] == byte(s>>8) {
					out = append(out, int64(i))
				}
			}
		}
	}
	return out
}

var mutNames = []string{"child:=self", "child:=other_node", "dptr", "cptr", "cptrmax", "arity", "version", "codec_byte",
	"ttag", "stag", "clen", "reserved", "dptrmax"}

// mutateNode applies one structured mutation to the node at off and (usually)
// repairs the checksum. Returns a description.
func mutateNode(t *sim.Tape, file []byte, nodes []int64, off int64) string {
	a := int(file[off+3])
	size := 16*a + 16
	n := file[off : off+int64(size)]
	i := t.Draw(a)
	kind := t.Draw(len(mutNames))
	cbase := 8*a + 8
	switch kind {
	case 0:
		n[8*i+7] = 0xFE
		putU48(n[cbase+8*i:], off)
		if t.Bool() {
			n[cbase+8*i+7] = 0xFF
		}
	case 1:
		n[8*i+7] = 0xFE
		putU48(n[cbase+8*i:], nodes[t.Draw(len(nodes))])
	case 2:
		if i == 0 {
			i = 1 % (a + 1)
		}
		if i > 0 {
			old := racx.U48(n[8*i:])
			v := []int64{old + 1, old - 1, 0, racx.U48(n[8*a:]), racx.U48(n[8*a:]) + 1, int64(t.Draw(1 << 20))}[t.Draw(6)]
			if v < 0 {
				v = 0
			}
			putU48(n[8*i:], v)
		}
	case 3:
		max := racx.U48(n[16*a+8:])
		v := []int64{max, max + 1, max - 1, int64(len(file)), int64(len(file)) + 1, 0, (1 << 48) - 1, int64(t.Draw(len(file) + 1))}[t.Draw(8)]
		if v < 0 {
			v = 0
		}
		putU48(n[cbase+8*i:], v)
	case 4:
		max := racx.U48(n[16*a+8:])
		v := []int64{max + 1, max - 1, 0, (1 << 48) - 1, int64(t.Draw(len(file) + 1))}[t.Draw(5)]
		if v < 0 {
			v = 0
		}
		putU48(n[16*a+8:], v)
	case 5:
		na := byte(t.Draw(256))
		switch t.Draw(3) {
		case 0:
			n[3] = na
		case 1:
			n[size-1] = na
		default:
			n[3], n[size-1] = na, na
		}
	case 6:
		n[16*a+14] = []byte{0, 2, 0xFF}[t.Draw(3)]
	case 7:
		n[8*a+7] = []byte{n[8*a+7] ^ 0x40, n[8*a+7] ^ 0x80, 0x04, 0x3F, 0xC0 | byte(t.Draw(64)), byte(t.Draw(256))}[t.Draw(6)]
	case 8:
		n[8*i+7] = []byte{0xFD, 0xFE, 0xC0, 0xFC, 0xFF, byte(t.Draw(256))}[t.Draw(6)]
	case 9:
		n[cbase+8*i+7] = []byte{byte(t.Draw(a)), byte(i), 0xFF, byte(t.Draw(256))}[t.Draw(4)]
	case 10:
		n[cbase+8*i+6] = byte(t.Draw(256))
	case 11:
		n[8*t.Draw(a+1)+6] = byte(1 + t.Draw(255))
	case 12:
		old := racx.U48(n[8*a:])
		v := []int64{old + 1, old - 1, 0, (1 << 48) - 1}[t.Draw(4)]
		if v < 0 {
			v = 0
		}
		putU48(n[8*a:], v)
	}
	repaired := t.Chance(7, 8)
	if repaired {
		// The arity may have changed: repair over the size the reader will use.
		ra := int(n[3])
		rs := 16*ra + 16
		if ra != 0 && off+int64(rs) <= int64(len(file)) {
			fixChecksum(file[off : off+int64(rs)])
		}
	}
	return fmt.Sprintf("%s(node@%d,elem %d,repaired=%v)", mutNames[kind], off, i, repaired)
}

func rawDamage(t *sim.Tape, file []byte) ([]byte, string) {
	if len(file) == 0 {
		return file, "none"
	}
	switch t.Draw(6) {
	case 0:
		i := t.Draw(len(file))
		file[i] ^= byte(1 << uint(t.Draw(8)))
		return file, fmt.Sprintf("bitflip@%d", i)
	case 1:
		i := t.Draw(len(file))
		file[i] = byte(t.Draw(256))
		return file, fmt.Sprintf("byte@%d", i)
	case 2:
		n := t.Draw(len(file) + 1)
		return file[:n], fmt.Sprintf("truncate->%d", n)
	case 3:
		i := t.Draw(len(file))
		l := 1 + t.Size(64)
		for k := i; k < i+l && k < len(file); k++ {
			file[k] = 0
		}
		return file, fmt.Sprintf("zero[%d,+%d)", i, l)
	case 4:
		i := t.Draw(len(file))
		l := 1 + t.Size(64)
		if i+l > len(file) {
			l = len(file) - i
		}
		out := append(append(append([]byte(nil), file[:i+l]...), file[i:i+l]...), file[i+l:]...)
		return out, fmt.Sprintf("dup[%d,+%d)", i, l)
	default:
		// Torn tail: the last bytes were never written (zeroes instead).
		l := 1 + t.Size(48)
		for k := len(file) - l; k < len(file); k++ {
			if k >= 0 {
				file[k] = 0
			}
		}
		return file, fmt.Sprintf("torn_tail(%d)", l)
	}
}

func panicSite() string {
	pcs := make([]uintptr, 40)
	n := runtime.Callers(3, pcs)
	frames := runtime.CallersFrames(pcs[:n])
	for {
		f, more := frames.Next()
		if strings.Contains(f.Function, "github.com/google/wuffs/") {
			fn := f.Function[strings.LastIndex(f.Function, "/")+1:]
			return fn
		}
		if !more {
			break
		}
	}
	return "unknown"
}

func runC15(t *sim.Tape, opt sim.RunOpt) *sim.Outcome {
	o := &sim.Outcome{}
	var file []byte
	var desc []string
	// Base file.
	switch opt.Mode {
	case "graph":
		g := drawGraph(t)
		file = g.assemble()
		desc = append(desc, g.String())
		if g.Cyc {
			o.Fault("cycle_in_node_graph")
		}
	default:
		w := drawC13Workload(t, opt, true)
		if w.Codec == "lz4" || w.Codec == "zstd" {
			w.Codec = "stub"
		}
		ex := w.execute(nil, nil)
		if ex.panicked != nil || ex.results[len(w.Writes)].err != nil {
			o.Probe("base_file_not_written")
			return o
		}
		file = append([]byte(nil), ex.disk.out...)
		desc = append(desc, "written{"+w.String()+"}")
	}
	// Damage (before open; the bytes are immutable afterwards).
	nmut := t.Pick(1, 4, 2, 1)
	for i := 0; i < nmut; i++ {
		nodes := findNodes(file)
		if len(nodes) > 0 && t.Chance(3, 4) {
			off := nodes[t.Draw(len(nodes))]
			if t.Chance(1, 3) {
				off = nodes[len(nodes)-1-t.Draw(1+t.Draw(len(nodes)))%len(nodes)]
			}
			d := mutateNode(t, file, nodes, off)
			desc = append(desc, d)
			o.Fault("node_" + d[:strings.Index(d, "(")])
		} else {
			var d string
			file, d = rawDamage(t, file)
			desc = append(desc, d)
			o.Fault("raw_" + strings.FieldsFunc(d, func(r rune) bool { return r == '@' || r == '[' || r == '(' || r == '-' })[0])
		}
	}
	claimed := int64(len(file))
	switch t.Pick(6, 1, 1, 1) {
	case 1:
		claimed -= int64(1 + t.Size(40))
	case 2:
		claimed += int64(1 + t.Size(40))
	case 3:
		claimed = int64(t.Size(1 << 20))
	}
	if claimed != int64(len(file)) {
		desc = append(desc, fmt.Sprintf("claimed_size=%d(real %d)", claimed, len(file)))
		o.Fault("claimed_size_differs")
	}
	useAt := t.Bool()
	o.Sample = strings.Join(desc, " ; ")
	if opt.Verbose {
		o.Tracef("file: %s ; readerAt=%v ; %d bytes", o.Sample, useAt, len(file))
	}
	fp := sim.NewFP()
	fp.Add(sim.Hash64(file))
	fp.Add(uint64(claimed))
	o.FP = fp.Sum()
	o.Nontrivial = nmut > 0 || opt.Mode == "graph"

	// Reference opinion (probe only): is this file spec-legal?
	var sf *racx.SpecFile
	var specErr error
	if claimed == int64(len(file)) {
		sf, specErr = racx.ValidateRAC(file, 100000)
		if specErr == nil {
			o.Probe("spec_legal_file")
		} else {
			o.Probe("spec_illegal_file")
		}
	}

	mkDisk := func() (io.ReadSeeker, *roDisk) {
		if useAt {
			d := &roDiskAt{roDisk{data: file}}
			return d, &d.roDisk
		}
		d := &roDisk{data: file}
		return d, d
	}
	unit := int64(16*(claimed/32) + 64)
	fail := func(class, key, f string, a ...interface{}) *sim.Outcome {
		o.Fail(class, key, "%s; file: %s", fmt.Sprintf(f, a...), o.Sample)
		return o
	}

	// ---- A. ChunkReader ----
	{
		rs, d := mkDisk()
		cr := &rac.ChunkReader{ReadSeeker: rs, CompressedSize: claimed}
		var pv interface{}
		var site string
		call := func(budget int64, f func()) bool {
			d.callOps, d.budget = 0, budget
			func() {
				defer func() {
					if r := recover(); r != nil {
						pv, site = r, panicSite()
					}
				}()
				f()
			}()
			o.Steps += d.callOps
			return pv == nil
		}
		var dsize int64
		var err error
		if !call(unit, func() { dsize, err = cr.DecompressedSize() }) {
			return fail("panic", "panic:"+site, "ChunkReader.DecompressedSize panicked: %v", pv)
		}
		if d.blown {
			return fail("unbounded_work", "unbounded_work:open", "opening needed more than %d disk operations for a %d-byte file", unit, claimed)
		}
		if opt.Verbose {
			o.Tracef("ChunkReader.DecompressedSize -> %d, %v (%d ops)", dsize, err, d.callOps)
		}
		if err == nil {
			o.Probe("open_ok")
			prevEnd := int64(0)
			walked := 0
			for walked < 3000 {
				var c rac.Chunk
				if !call(unit, func() { c, err = cr.NextChunk() }) {
					return fail("panic", "panic:"+site, "ChunkReader.NextChunk panicked: %v", pv)
				}
				if d.blown {
					return fail("unbounded_work", "unbounded_work:NextChunk", "one NextChunk call (after %d chunks) needed more than %d disk operations for a %d-byte file", walked, unit, claimed)
				}
				if opt.Verbose && walked < 20 {
					o.Tracef("NextChunk -> D=%v P=%v S=%v T=%v stag=%#x ttag=%#x codec=%#x err=%v (%d ops)", c.DRange, c.CPrimary, c.CSecondary, c.CTertiary, c.STag, c.TTag, uint64(c.Codec), err, d.callOps)
				}
				if err == io.EOF {
					if prevEnd != dsize {
						return fail("chunks_do_not_cover", "", "chunk walk ended at %d but DecompressedSize is %d", prevEnd, dsize)
					}
					o.Probe("walk_completed")
					break
				}
				if err != nil {
					o.Probe("walk_error")
					break
				}
				walked++
				if c.CPrimary[0] > c.CPrimary[1] || c.CPrimary[0] < 0 || c.CPrimary[1] > claimed {
					return fail("chunk_cprimary", "", "chunk %d has CPrimary %v (low<=high and inside the %d-byte file required)", walked, c.CPrimary, claimed)
				}
				if c.DRange[0] >= c.DRange[1] {
					return fail("chunk_drange_empty", "", "chunk %d has empty or inverted DRange %v", walked, c.DRange)
				}
				if c.DRange[0] != prevEnd {
					return fail("chunk_drange_gap", "", "chunk %d has DRange %v but the previous chunk ended at %d", walked, c.DRange, prevEnd)
				}
				if c.DRange[1] > dsize {
					return fail("chunk_drange_beyond", "", "chunk %d has DRange %v beyond DecompressedSize %d", walked, c.DRange, dsize)
				}
				prevEnd = c.DRange[1]
			}
			o.ProbeN("chunks_walked", int64(walked))
			// Seeks.
			for k := 0; k < 3 && dsize > 0; k++ {
				var x int64
				switch t.Draw(4) {
				case 0:
					x = int64(t.Draw(int(min64(dsize, 1<<30))))
				case 1:
					x = dsize - 1
				case 2:
					x = dsize
				default:
					x = dsize + int64(t.Size(100))
				}
				var c rac.Chunk
				var serr error
				if !call(unit, func() { serr = cr.SeekToChunkContaining(x) }) {
					return fail("panic", "panic:"+site, "SeekToChunkContaining(%d) panicked: %v", x, pv)
				}
				if serr != nil {
					break
				}
				if !call(unit, func() { c, err = cr.NextChunk() }) {
					return fail("panic", "panic:"+site, "NextChunk after SeekToChunkContaining(%d) panicked: %v", x, pv)
				}
				if d.blown {
					return fail("unbounded_work", "unbounded_work:NextChunk", "NextChunk after SeekToChunkContaining(%d) needed more than %d disk operations", x, unit)
				}
				if opt.Verbose {
					o.Tracef("SeekToChunkContaining(%d); NextChunk -> D=%v err=%v", x, c.DRange, err)
				}
				if err == nil {
					if !(c.DRange[0] <= x && x < c.DRange[1]) {
						return fail("seek_wrong_chunk", "", "SeekToChunkContaining(%d) then NextChunk yielded DRange %v", x, c.DRange)
					}
					if c.CPrimary[0] > c.CPrimary[1] || c.CPrimary[0] < 0 || c.CPrimary[1] > claimed {
						return fail("chunk_cprimary", "", "chunk after seek has CPrimary %v", c.CPrimary)
					}
				} else if err == io.EOF && x < dsize {
					return fail("seek_eof_inside", "", "SeekToChunkContaining(%d) then NextChunk returned EOF but DecompressedSize is %d", x, dsize)
				} else if err != nil {
					break
				}
			}
		} else {
			o.Probe("open_rejected")
		}
	}

	// ---- B. rac.Reader (sequential), twice ----
	const maxOut = 1 << 16
	decode := func(pieces []int, seekTo int64) (out []byte, rerr error, v *sim.Outcome) {
		rs, d := mkDisk()
		rr := &rac.Reader{ReadSeeker: rs, CompressedSize: claimed, CodecReaders: codecReaders()}
		var pv interface{}
		var site string
		call := func(budget int64, f func()) bool {
			d.callOps, d.budget = 0, budget
			func() {
				defer func() {
					if r := recover(); r != nil {
						pv, site = r, panicSite()
					}
				}()
				f()
			}()
			o.Steps += d.callOps
			return pv == nil
		}
		if seekTo >= 0 {
			var serr error
			if !call(unit, func() { _, serr = rr.Seek(seekTo, io.SeekStart) }) {
				return nil, nil, fail("panic", "panic:"+site, "Reader.Seek(%d) panicked: %v", seekTo, pv)
			}
			if d.blown {
				return nil, nil, fail("unbounded_work", "unbounded_work:Reader.Seek", "Reader.Seek needed more than %d disk operations", unit)
			}
			if serr != nil {
				return nil, serr, nil
			}
		}
		for i := 0; len(out) < maxOut; i++ {
			n := 4096
			if i < len(pieces) {
				n = pieces[i]
			}
			p := make([]byte, n)
			var got int
			budget := unit*int64(n+2) + 8*int64(n) + 4*claimed + 4096
			if !call(budget, func() { got, rerr = rr.Read(p) }) {
				return out, nil, fail("panic", "panic:"+site, "Reader.Read panicked after %d bytes: %v", len(out), pv)
			}
			if d.blown {
				return out, nil, fail("unbounded_work", "unbounded_work:Reader.Read", "one Reader.Read(%d bytes) call needed more than %d disk operations for a %d-byte file", n, budget, claimed)
			}
			if got < 0 || got > n {
				return out, nil, fail("read_count", "", "Reader.Read(%d bytes) returned n=%d", n, got)
			}
			out = append(out, p[:got]...)
			if rerr != nil {
				break
			}
			if got == 0 && n > 0 {
				// io.Reader allows (0, nil) but discourages it; bound it.
				if i > 100000 {
					return out, nil, fail("unbounded_work", "unbounded_work:Reader.Read.zero", "Reader.Read keeps returning (0, nil)")
				}
			}
		}
		var cerr error
		if !call(unit, func() { cerr = rr.Close() }) {
			return out, nil, fail("panic", "panic:"+site, "Reader.Close panicked: %v", pv)
		}
		_ = cerr
		return out, rerr, nil
	}
	var pieces []int
	for i, n := 0, t.Draw(6); i < n; i++ {
		pieces = append(pieces, t.Size(5000))
	}
	out1, err1, v := decode(pieces, -1)
	if v != nil {
		return v
	}
	if opt.Verbose {
		o.Tracef("Reader full decode -> %d bytes, err=%v", len(out1), err1)
	}
	out2, err2, v := decode(nil, -1)
	if v != nil {
		return v
	}
	if err1 == io.EOF && err2 == io.EOF {
		o.Probe("decoded_without_error")
		if !bytes.Equal(out1, out2) {
			return fail("decode_not_repeatable", "", "two decodes of the same bytes differ at byte %d (lengths %d, %d)", firstDiff(out1, out2), len(out1), len(out2))
		}
		if sf != nil && specErr == nil {
			if ref, ok, derr := racx.DecodeSpec(file, sf); ok && derr == nil && len(ref) <= maxOut {
				if bytes.Equal(ref, out1) {
					o.Probe("agrees_with_spec_decoder")
				} else {
					o.Probe("UNCLAIMED_differs_from_spec_decoder")
				}
			}
		}
		// A seek into the middle must return the corresponding suffix.
		if len(out1) > 1 && len(out1) < maxOut {
			x := int64(t.Draw(len(out1)))
			out3, err3, v := decode(nil, x)
			if v != nil {
				return v
			}
			if err3 == io.EOF && !bytes.Equal(out3, out1[x:]) {
				return fail("decode_not_repeatable", "decode_not_repeatable:after_seek", "decode after Seek(%d) differs from the suffix of the full decode at byte %d", x, firstDiff(out3, out1[x:]))
			}
		}
	} else {
		o.Probe("decode_error")
	}
	return o
}

func min64(a, b int64) int64 {
	if a < b {
		return a
	}
	return b
}
