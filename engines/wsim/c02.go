package main

// C02: every fact the compiler holds at a statement is true whenever execution
// reaches that statement. The fact lists come from the observer injected into
// the working tree's lang/check at check time (rewrite/factobs.go); the
// interpreter evaluates them in ideal integers on the concrete state before
// executing the statement - in every loop iteration and in every call of the
// seeded history.

import (
	"fmt"
	"sort"
	"strings"

	a "github.com/google/wuffs/lang/ast"

	"verif/sim"
)

type factStats struct {
	evaluated, skipped, ambiguous int
	skipWhy                       map[string]int
}

func (p *program) factObserver(st *factStats) func(in *interp, fn *a.Func, stmt *a.Node, after bool) {
	return func(in *interp, fn *a.Func, stmt *a.Node, after bool) {
		fs := p.facts[factKey{stmt, after}]
		if len(fs) == 0 {
			return
		}
		if p.visits[factKey{stmt, after}] != 1 {
			st.ambiguous++
			return
		}
		for _, f := range fs {
			truth, ok, why := in.evalFact(f)
			if !ok {
				st.skipped++
				st.skipWhy[firstWords(why, 3)]++
				continue
			}
			st.evaluated++
			if !truth {
				_, line := stmt.AsRaw().FilenameLine()
				var all []string
				for _, g := range fs {
					all = append(all, g.Str(p.tm))
				}
				where := "before"
				if after {
					where = "at the end of the block, after"
				}
				in.depthFail(fn, "false_fact", factShape(f.Str(p.tm)), "the compiler holds the fact %q "+where+" the statement on line %d of %s, and it is false there (state: %s); all facts held at that point: %s",
					f.Str(p.tm), line, fn.FuncName().Str(p.tm), in.describeState(f), strings.Join(all, " ; "))
			}
		}
	}
}

// depthFail reports a violation attributed to the function that contains the
// statement (not the outermost public method), so that the finding key names
// the mechanism whose facts are wrong.
func (in *interp) depthFail(fn *a.Func, class, tag, format string, args ...interface{}) {
	if in.viol == nil {
		in.viol = &violation{class: class, what: fmt.Sprintf(format, args...), fn: fn.FuncName().Str(in.tm), tag: tag}
	}
	panic(in.viol)
}

// describeState renders the scalars of the current frame and receiver.
func (in *interp) describeState(f *a.Expr) string {
	var parts []string
	fr := in.cur()
	for id, v := range fr.locals {
		if v.kind == kInt || v.kind == kBool {
			parts = append(parts, id.Str(in.tm)+"="+v.String())
		}
	}
	for id, v := range fr.args {
		if v.kind == kInt || v.kind == kBool {
			parts = append(parts, "args."+id.Str(in.tm)+"="+v.String())
		}
	}
	for id, v := range in.this {
		if v.kind == kInt || v.kind == kBool {
			parts = append(parts, "this."+id.Str(in.tm)+"="+v.String())
		}
	}
	sort.Strings(parts)
	if len(parts) > 24 {
		parts = parts[:24]
	}
	return strings.Join(parts, " ")
}

func runC02(tp *sim.Tape, opt sim.RunOpt) *sim.Outcome {
	o := &sim.Outcome{}
	if !haveObserver {
		o.Fail("harness", "harness", "engine built without the fact observer")
		return o
	}
	var src, name string
	var mech map[string]string
	switch opt.Mode {
	case "corpus":
		c := corpus[tp.Draw(len(corpus))]
		src, name = c.src, "corpus:"+c.name
	case "axioms":
		src = generateAxiomProgram(tp, opt.Extra["repo"])
		name, mech = "generated-axioms", lastGenMech
	case "flow":
		src = generateFlowProgram(tp)
		name, mech = "generated-flow", lastGenMech
	case "expr":
		src = generateExprProgram(tp)
		name, mech = "generated-expr", lastGenMech
	case "coro":
		src = generateCoroProgram(tp)
		name, mech = "generated-coro", lastGenMech
	case "slice":
		src = generateSliceProgram(tp)
		name, mech = "generated-slice", lastGenMech
	default:
		src = generate(tp)
		name, mech = "generated", lastGenMech
	}
	fp := sim.NewFP()
	fp.AddStr(src)
	p, err := load(src)
	if err != nil {
		o.Probe("rejected_by_compiler")
		o.Probe("rejected_by_compiler mode=" + opt.Mode)
		o.FP = fp.Sum()
		return o
	}
	o.Probe("accepted_by_compiler")
	o.Probe("accepted_by_compiler mode=" + opt.Mode)
	for _, m := range mech {
		if m != "helper" {
			o.Probe("accepted_mechanism " + m)
		}
	}
	nstm, nfacts := 0, 0
	for _, fs := range p.facts {
		nstm++
		nfacts += len(fs)
	}
	o.ProbeN("statements_observed", int64(nstm))
	o.ProbeN("facts_recorded", int64(nfacts))
	st := &factStats{skipWhy: map[string]int{}}
	var res execResult
	if opt.Mode == "coro" {
		res = driveHistory(p, tp, p.factObserver(st))
		o.ProbeN("suspensions", int64(res.suspensions))
		if res.suspensions > 0 {
			o.Probe("runs_with_a_suspension")
		}
	} else {
		res = execute(p, tp, 1+tp.Draw(8), p.factObserver(st))
	}
	for _, c := range res.calls {
		fp.AddStr(c)
	}
	o.FP = fp.Sum()
	o.Steps = int64(res.steps)
	o.ProbeN("fact_evaluations", int64(st.evaluated))
	o.ProbeN("fact_evaluations_skipped", int64(st.skipped))
	o.ProbeN("statements_with_ambiguous_facts", int64(st.ambiguous))
	for w, n := range st.skipWhy {
		o.ProbeN("fact_skipped: "+w, int64(n))
	}
	o.Nontrivial = st.evaluated > 0
	o.Sample = map[string]interface{}{"program": name, "source": src, "calls": res.calls}
	if opt.Verbose {
		o.Tracef("%s", name)
		for _, l := range strings.Split(src, "\n") {
			o.Tracef("    %s", l)
		}
		for _, c := range res.calls {
			o.Tracef("call %s", c)
		}
	}
	switch {
	case res.viol != nil && res.viol.class == "false_fact":
		// keyed by the abstracted shape of the false fact, plus the axiom when
		// the method instantiates one
		key := res.viol.class + ":" + res.viol.tag
		if m := mech[res.viol.fn]; strings.HasPrefix(m, "axiom ") {
			key += ":" + m
		}
		o.Fail(res.viol.class, key, "the compiler ACCEPTED this program and %s; history: %s; program (%s):\n%s",
			res.viol.what, strings.Join(res.calls, "; "), name, src)
	case res.viol != nil:
		// A C01-class safety violation: C01's subject, reported there. Here it
		// only ends the run.
		o.Probe("ended_by_c01_class_violation: " + res.viol.class)
	case res.unsupported != "":
		o.Probe("skipped_unsupported")
		o.Probe("unsupported: " + firstWords(res.unsupported, 3))
	default:
		o.Probe("executed_with_all_facts_true")
	}
	return o
}
