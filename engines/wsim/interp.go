package main

// A reference interpreter for a stated subset of Wuffs, walking the AST exactly
// as returned by the working tree's check.Check (so it sees the same MType,
// MBounds and ConstValue annotations the C generator sees). It computes in ideal
// integers and implements the documented semantics directly: zero-initialised
// variables, left-to-right statements, modular / saturating operators as named,
// short-circuit and/or (so that it can never over-report).
//
// Subset: one package, one struct; numeric (possibly refined) and bool locals,
// fields and arguments; arrays of numerics, slices of them; if / else if / else,
// labelled while with pre/inv/post, break / continue, return; = and the
// compound assignments; the arithmetic, bitwise, comparison, ~mod and ~sat
// operators; `as`; indexing and slicing; calls of the struct's own non-coroutine
// methods; min / max / low_bits / high_bits / length. Anything else makes the
// program "unsupported": skipped and counted, never reported.
//
// The C01 monitor rides on the execution: see monitor().

import (
	"fmt"
	"math/big"

	a "github.com/google/wuffs/lang/ast"
	t "github.com/google/wuffs/lang/token"
)

type unsupported struct{ what string }

type violation struct {
	class string // stable oracle name
	what  string
	fn    string // the PUBLIC method that was executing (outermost frame)
	tag   string // C02: the abstracted shape of the false fact
}

type retSignal struct{ v *val }
type jumpSignal struct {
	target a.Loop
	brk    bool
}

const (
	kInt = iota
	kBool
	kArray
	kSlice
	kStatus
)

type val struct {
	kind  int
	i     *big.Int
	b     bool
	elems []*val // array storage (shared by slices of it)
	off   int    // slice window into elems
	n     int
	st    string
	io    *ioBuf // kIO: a caller-owned I/O buffer (reference semantics)
	stPkg bool   // kStatus: declared by the package (not base)
}

func intVal(x int64) *val    { return &val{kind: kInt, i: big.NewInt(x)} }
func bigVal(x *big.Int) *val { return &val{kind: kInt, i: new(big.Int).Set(x)} }
func boolVal(b bool) *val    { return &val{kind: kBool, b: b} }

func (v *val) copyFrom(o *val) {
	switch o.kind {
	case kArray:
		// Arrays are values: element-wise copy.
		v.kind = kArray
		v.elems = make([]*val, len(o.elems))
		for i, e := range o.elems {
			c := &val{}
			c.copyFrom(e)
			v.elems[i] = c
		}
	default:
		*v = *o
		if o.i != nil {
			v.i = new(big.Int).Set(o.i)
		}
	}
}

func (v *val) String() string {
	switch v.kind {
	case kInt:
		return v.i.String()
	case kBool:
		return fmt.Sprint(v.b)
	case kArray:
		return fmt.Sprintf("array[%d]", len(v.elems))
	case kSlice:
		return fmt.Sprintf("slice[%d]", v.n)
	case kIO:
		return fmt.Sprintf("io[%d..%d/%d]", v.io.ri, v.io.wi, len(v.io.data))
	}
	return "status:" + v.st
}

type frame struct {
	fn     *a.Func
	locals map[t.ID]*val
	args   map[t.ID]*val
	// argExprs: the call-site arguments of a nested coroutine call, evaluated
	// again when the coroutine is resumed (see suspend).
	argExprs []*a.Node
	// ltypes: the declared types of the locals (pointer-holding ones do not
	// survive a suspension).
	ltypes map[t.ID]*a.TypeExpr
}

type interp struct {
	tm      *t.Map
	funcs   map[t.ID]*a.Func // methods of the one struct, by name
	strct   *a.Struct
	this    map[t.ID]*val
	frames  []*frame
	steps   int
	maxStep int
	viol    *violation
	// observer is called before every executed statement (C02).
	observer func(in *interp, fn *a.Func, stmt *a.Node, after bool)
	nChecks  int
	depth    int
	// quiet: a fact is being evaluated (C02). Ideal arithmetic, no C01
	// monitoring, no observer; anything that cannot be evaluated aborts the
	// evaluation of that fact only.
	quiet bool
	// coroutines (coro.go)
	active       *coroutine
	inCoro       int
	suspensions  int
	nextArgExprs []*a.Node
}

type quietAbort struct{ why string }

func (in *interp) fail(class, format string, args ...interface{}) {
	if in.quiet {
		panic(quietAbort{class})
	}
	if in.viol == nil {
		fn := ""
		if len(in.frames) > 0 {
			fn = in.frames[0].fn.FuncName().Str(in.tm)
		}
		in.viol = &violation{class: class, what: fmt.Sprintf(format, args...), fn: fn}
	}
	panic(in.viol)
}

func unsup(format string, args ...interface{}) { panic(unsupported{fmt.Sprintf(format, args...)}) }

// ---- types ----

var baseRanges = map[string][2]string{
	"u8": {"0", "255"}, "u16": {"0", "65535"}, "u32": {"0", "4294967295"}, "u64": {"0", "18446744073709551615"},
	"i8": {"-128", "127"}, "i16": {"-32768", "32767"}, "i32": {"-2147483648", "2147483647"}, "i64": {"-9223372036854775808", "9223372036854775807"},
}

func bigOf(s string) *big.Int { x, _ := new(big.Int).SetString(s, 10); return x }

// typeRange returns the inclusive range of a numeric type expression,
// refinements applied. ok is false for non-numeric types.
func (in *interp) typeRange(typ *a.TypeExpr) (lo, hi *big.Int, ok bool) {
	if typ == nil || typ.Decorator() != 0 {
		return nil, nil, false
	}
	q := typ.QID()
	if q[0] != t.IDBase {
		return nil, nil, false
	}
	r, ok := baseRanges[q[1].Str(in.tm)]
	if !ok {
		return nil, nil, false
	}
	lo, hi = bigOf(r[0]), bigOf(r[1])
	if b := typ.Min(); b != nil && b.ConstValue() != nil {
		lo = b.ConstValue()
	}
	if b := typ.Max(); b != nil && b.ConstValue() != nil {
		hi = b.ConstValue()
	}
	return lo, hi, true
}

func (in *interp) bitWidth(typ *a.TypeExpr) int {
	if typ == nil || typ.Decorator() != 0 || typ.QID()[0] != t.IDBase {
		return 0
	}
	switch typ.QID()[1].Str(in.tm) {
	case "u8", "i8":
		return 8
	case "u16", "i16":
		return 16
	case "u32", "i32":
		return 32
	case "u64", "i64":
		return 64
	}
	return 0
}

func (in *interp) zero(typ *a.TypeExpr) *val {
	switch typ.Decorator() {
	case 0:
		if typ.IsBool() {
			return boolVal(false)
		}
		if typ.IsStatus() {
			return &val{kind: kStatus}
		}
		if _, _, ok := in.typeRange(typ); ok {
			return intVal(0)
		}
		unsup("type %s", typ.Str(in.tm))
	case t.IDArray, t.IDRoarray:
		n := typ.ArrayLength().ConstValue()
		if n == nil || !n.IsInt64() || n.Int64() > 4096 {
			unsup("array length")
		}
		v := &val{kind: kArray, elems: make([]*val, n.Int64())}
		for i := range v.elems {
			v.elems[i] = in.zero(typ.Inner())
		}
		return v
	case t.IDSlice, t.IDRoslice:
		return &val{kind: kSlice}
	}
	unsup("type %s", typ.Str(in.tm))
	return nil
}

// ---- the C01 monitor ----

// monitor checks a concrete numeric value of an expression in statement
// position against the range the compiler derived for it.
func (in *interp) monitor(n *a.Expr, v *val) {
	if in.quiet || v == nil || v.kind != kInt { // nil: a call of a method without a result
		return
	}
	in.nChecks++
	b := n.MBounds()
	if b[0] != nil && v.i.Cmp(b[0]) < 0 || b[1] != nil && v.i.Cmp(b[1]) > 0 {
		in.fail("value_outside_derived_range", "%q evaluated to %s, outside the range %s the compiler derived for it", n.Str(in.tm), v.i, b.String())
	}
}

func (in *interp) fits(class string, typ *a.TypeExpr, v *val, what string) {
	if in.quiet || v == nil || v.kind != kInt {
		return
	}
	lo, hi, ok := in.typeRange(typ)
	if !ok {
		return
	}
	if v.i.Cmp(lo) < 0 || v.i.Cmp(hi) > 0 {
		in.fail(class, "%s: value %s does not fit the type %s [%s ..= %s]", what, v.i, typ.Str(in.tm), lo, hi)
	}
}

// ---- expressions ----

func (in *interp) cur() *frame { return in.frames[len(in.frames)-1] }

func (in *interp) evalRef(n *a.Expr) *val {
	switch n.Operator() {
	case 0:
		id := n.Ident()
		if v, ok := in.cur().locals[id]; ok {
			return v
		}
		unsup("assignable identifier %s", id.Str(in.tm))
	case t.IDDot:
		lhs := n.LHS().AsExpr()
		if lhs.Operator() == 0 && lhs.Ident() == t.IDThis {
			if v, ok := in.this[n.Ident()]; ok {
				return v
			}
		}
		if lhs.Operator() == 0 && lhs.Ident() == t.IDArgs {
			if v, ok := in.cur().args[n.Ident()]; ok {
				return v
			}
		}
		unsup("selector %s", n.Str(in.tm))
	case t.IDOpenBracket:
		base := in.eval(n.LHS().AsExpr())
		idx := in.eval(n.RHS().AsExpr())
		in.monitor(n.RHS().AsExpr(), idx)
		return in.index(n, base, idx)
	}
	unsup("reference %s", n.Str(in.tm))
	return nil
}

func (in *interp) index(n *a.Expr, base, idx *val) *val {
	if idx.kind != kInt {
		unsup("non-integer index")
	}
	var length int
	switch base.kind {
	case kArray:
		length = len(base.elems)
	case kSlice:
		length = base.n
	default:
		unsup("indexing a %d", base.kind)
	}
	if idx.i.Sign() < 0 || idx.i.Cmp(big.NewInt(int64(length))) >= 0 {
		in.fail("index_out_of_bounds", "%q: index %s outside [0, %d)", n.Str(in.tm), idx.i, length)
	}
	i := int(idx.i.Int64())
	if base.kind == kSlice {
		return base.elems[base.off+i]
	}
	return base.elems[i]
}

func (in *interp) eval(n *a.Expr) *val {
	in.tick()
	if typ := n.MType(); typ != nil && typ.IsStatus() && (n.Operator() == 0 || n.Operator() == t.IDDot) {
		if id := n.Ident(); id == t.IDOk {
			return statusVal("")
		} else if id.IsDQStrLiteral(in.tm) {
			s := id.Str(in.tm)
			v := statusVal(s[1 : len(s)-1])
			v.stPkg = n.Operator() == 0
			return v
		}
	}
	if cv := n.ConstValue(); cv != nil {
		if typ := n.MType(); typ != nil && typ.IsBool() {
			return boolVal(cv.Sign() != 0)
		}
		if typ := n.MType(); typ != nil && typ.IsStatus() {
			return &val{kind: kStatus, st: n.Ident().Str(in.tm)}
		}
		return bigVal(cv)
	}
	switch op := n.Operator(); op {
	case 0:
		id := n.Ident()
		if v, ok := in.cur().locals[id]; ok {
			return v
		}
		if id == t.IDTrue {
			return boolVal(true)
		}
		if id == t.IDFalse {
			return boolVal(false)
		}
		if id == t.IDOk {
			return &val{kind: kStatus}
		}
		unsup("identifier %s", id.Str(in.tm))
	case t.IDDot:
		return in.evalRef(n)
	case t.IDOpenBracket:
		return in.evalRef(n)
	case t.IDDotDot:
		return in.evalSlice(n)
	case t.IDOpenParen:
		return in.evalCall(n)
	case t.IDXUnaryPlus:
		return in.eval(n.RHS().AsExpr())
	case t.IDXUnaryMinus:
		v := in.eval(n.RHS().AsExpr())
		return in.arith(n, bigVal(new(big.Int).Neg(v.i)))
	case t.IDXUnaryNot:
		return boolVal(!in.eval(n.RHS().AsExpr()).b)
	case t.IDXBinaryAnd:
		if !in.eval(n.LHS().AsExpr()).b {
			return boolVal(false)
		}
		return boolVal(in.eval(n.RHS().AsExpr()).b)
	case t.IDXBinaryOr:
		if in.eval(n.LHS().AsExpr()).b {
			return boolVal(true)
		}
		return boolVal(in.eval(n.RHS().AsExpr()).b)
	case t.IDXAssociativeAnd:
		for _, o := range n.Args() {
			if !in.eval(o.AsExpr()).b {
				return boolVal(false)
			}
		}
		return boolVal(true)
	case t.IDXAssociativeOr:
		for _, o := range n.Args() {
			if in.eval(o.AsExpr()).b {
				return boolVal(true)
			}
		}
		return boolVal(false)
	case t.IDXAssociativePlus, t.IDXAssociativeStar, t.IDXAssociativeAmp, t.IDXAssociativePipe, t.IDXAssociativeHat:
		acc := in.eval(n.Args()[0].AsExpr())
		for _, o := range n.Args()[1:] {
			r := in.eval(o.AsExpr())
			z := new(big.Int)
			switch op {
			case t.IDXAssociativePlus:
				z.Add(acc.i, r.i)
			case t.IDXAssociativeStar:
				z.Mul(acc.i, r.i)
			case t.IDXAssociativeAmp:
				z.And(acc.i, r.i)
			case t.IDXAssociativePipe:
				z.Or(acc.i, r.i)
			default:
				z.Xor(acc.i, r.i)
			}
			acc = in.arith(n, bigVal(z))
		}
		return acc
	case t.IDXBinaryAs:
		v := in.eval(n.LHS().AsExpr())
		if v.kind == kInt {
			in.fits("conversion_outside_type", n.RHS().AsTypeExpr(), v, fmt.Sprintf("%q", n.Str(in.tm)))
		}
		return v
	}
	if n.LHS() != nil && n.RHS() != nil {
		return in.evalBinary(n)
	}
	unsup("expression %s", n.Str(in.tm))
	return nil
}

// arith checks a non-modular arithmetic result against the natural range of the
// expression's type (ideal, i.e. constant, expressions have none).
func (in *interp) arith(n *a.Expr, v *val) *val {
	typ := n.MType()
	if in.quiet || typ == nil || typ.IsIdeal() {
		return v
	}
	lo, hi, ok := in.typeRange(typ.Unrefined())
	if ok && (v.i.Cmp(lo) < 0 || v.i.Cmp(hi) > 0) {
		in.fail("arithmetic_overflow", "%q evaluated to %s, outside its type %s", n.Str(in.tm), v.i, typ.Unrefined().Str(in.tm))
	}
	return v
}

func (in *interp) evalBinary(n *a.Expr) *val {
	l := in.eval(n.LHS().AsExpr())
	r := in.eval(n.RHS().AsExpr())
	op := n.Operator()
	if l.kind == kBool || l.kind == kStatus {
		switch op {
		case t.IDXBinaryEqEq:
			return boolVal(l.b == r.b && l.st == r.st)
		case t.IDXBinaryNotEq:
			return boolVal(!(l.b == r.b && l.st == r.st))
		}
		unsup("operator on bool/status")
	}
	if l.kind != kInt || r.kind != kInt {
		unsup("operator on non-integers")
	}
	c := l.i.Cmp(r.i)
	switch op {
	case t.IDXBinaryEqEq:
		return boolVal(c == 0)
	case t.IDXBinaryNotEq:
		return boolVal(c != 0)
	case t.IDXBinaryLessThan:
		return boolVal(c < 0)
	case t.IDXBinaryLessEq:
		return boolVal(c <= 0)
	case t.IDXBinaryGreaterEq:
		return boolVal(c >= 0)
	case t.IDXBinaryGreaterThan:
		return boolVal(c > 0)
	}
	z := new(big.Int)
	width := in.bitWidth(n.MType())
	mod := func() *val {
		if width == 0 {
			unsup("modular operator on a type without a width")
		}
		m := new(big.Int).Lsh(big.NewInt(1), uint(width))
		z.Mod(z, m)
		return bigVal(z)
	}
	switch op {
	case t.IDXBinaryPlus:
		return in.arith(n, bigVal(z.Add(l.i, r.i)))
	case t.IDXBinaryMinus:
		return in.arith(n, bigVal(z.Sub(l.i, r.i)))
	case t.IDXBinaryStar:
		return in.arith(n, bigVal(z.Mul(l.i, r.i)))
	case t.IDXBinarySlash, t.IDXBinaryPercent:
		if r.i.Sign() == 0 {
			in.fail("division_by_zero", "%q: division by zero", n.Str(in.tm))
		}
		if op == t.IDXBinarySlash {
			return in.arith(n, bigVal(z.Quo(l.i, r.i)))
		}
		return in.arith(n, bigVal(z.Rem(l.i, r.i)))
	case t.IDXBinaryShiftL, t.IDXBinaryShiftR, t.IDXBinaryTildeModShiftL:
		if r.i.Sign() < 0 || (width > 0 && r.i.Cmp(big.NewInt(int64(width))) >= 0) || !r.i.IsInt64() || r.i.Int64() > 4096 {
			in.fail("shift_out_of_range", "%q: shift amount %s for a %d-bit type", n.Str(in.tm), r.i, width)
		}
		s := uint(r.i.Int64())
		switch op {
		case t.IDXBinaryShiftL:
			return in.arith(n, bigVal(z.Lsh(l.i, s)))
		case t.IDXBinaryShiftR:
			return in.arith(n, bigVal(z.Rsh(l.i, s)))
		}
		z.Lsh(l.i, s)
		return mod()
	case t.IDXBinaryAmp:
		return in.arith(n, bigVal(z.And(l.i, r.i)))
	case t.IDXBinaryPipe:
		return in.arith(n, bigVal(z.Or(l.i, r.i)))
	case t.IDXBinaryHat:
		return in.arith(n, bigVal(z.Xor(l.i, r.i)))
	case t.IDXBinaryTildeModPlus:
		z.Add(l.i, r.i)
		return mod()
	case t.IDXBinaryTildeModMinus:
		z.Sub(l.i, r.i)
		return mod()
	case t.IDXBinaryTildeModStar:
		z.Mul(l.i, r.i)
		return mod()
	case t.IDXBinaryTildeSatPlus, t.IDXBinaryTildeSatMinus:
		if op == t.IDXBinaryTildeSatPlus {
			z.Add(l.i, r.i)
		} else {
			z.Sub(l.i, r.i)
		}
		lo, hi, ok := in.typeRange(n.MType().Unrefined())
		if !ok {
			unsup("saturating operator on a non-numeric type")
		}
		if z.Cmp(lo) < 0 {
			z.Set(lo)
		}
		if z.Cmp(hi) > 0 {
			z.Set(hi)
		}
		return bigVal(z)
	}
	unsup("operator %s", op.Str(in.tm))
	return nil
}

func (in *interp) evalSlice(n *a.Expr) *val {
	base := in.eval(n.LHS().AsExpr())
	var length int
	switch base.kind {
	case kArray:
		length = len(base.elems)
	case kSlice:
		length = base.n
	default:
		unsup("slicing")
	}
	lo, hi := 0, length
	if m := n.MHS(); m != nil {
		v := in.eval(m.AsExpr())
		in.monitor(m.AsExpr(), v)
		if v.i.Sign() < 0 || v.i.Cmp(big.NewInt(int64(length))) > 0 {
			in.fail("slice_out_of_bounds", "%q: low bound %s outside [0, %d]", n.Str(in.tm), v.i, length)
		}
		lo = int(v.i.Int64())
	}
	if r := n.RHS(); r != nil {
		v := in.eval(r.AsExpr())
		in.monitor(r.AsExpr(), v)
		if v.i.Sign() < 0 || v.i.Cmp(big.NewInt(int64(length))) > 0 {
			in.fail("slice_out_of_bounds", "%q: high bound %s outside [0, %d]", n.Str(in.tm), v.i, length)
		}
		hi = int(v.i.Int64())
	}
	if lo > hi {
		in.fail("slice_out_of_bounds", "%q: low bound %d above high bound %d", n.Str(in.tm), lo, hi)
	}
	off := 0
	if base.kind == kSlice {
		off = base.off
	}
	return &val{kind: kSlice, elems: base.elems, off: off + lo, n: hi - lo}
}

func (in *interp) evalCall(n *a.Expr) *val {
	recv, meth, args, ok := n.IsMethodCall()
	if !ok {
		unsup("call %s", n.Str(in.tm))
	}
	name := meth.Str(in.tm)
	if recv.Operator() == 0 && recv.Ident() == t.IDThis {
		fn := in.funcs[meth]
		if fn == nil {
			unsup("method %s", name)
		}
		if in.quiet && fn.Effect().Impure() {
			panic(quietAbort{"impure call inside a fact"})
		}
		argv := map[t.ID]*val{}
		for _, o := range args {
			arg := o.AsArg()
			v := in.eval(arg.Value())
			in.monitor(arg.Value(), v)
			c := &val{}
			c.copyFrom(v)
			argv[arg.Name()] = c
		}
		if fn.Effect().Coroutine() {
			in.nextArgExprs = args
			st := in.call(fn, argv, true)
			if isError(st) {
				// an error from a `?` call is returned by the caller too
				panic(retSignal{st})
			}
			return nil
		}
		return in.call(fn, argv, true)
	}
	r := in.eval(recv)
	if r.kind == kIO {
		return in.ioCall(n, recv, r, name, args)
	}
	arg := func(i int) *val {
		if i >= len(args) {
			unsup("arity of %s", name)
		}
		v := in.eval(args[i].AsArg().Value())
		in.monitor(args[i].AsArg().Value(), v)
		return v
	}
	switch {
	case name == "length" && (r.kind == kSlice || r.kind == kArray):
		if r.kind == kArray {
			return intVal(int64(len(r.elems)))
		}
		return intVal(int64(r.n))
	case name == "min" && r.kind == kInt:
		o := arg(0)
		if o.i.Cmp(r.i) < 0 {
			return bigVal(o.i)
		}
		return bigVal(r.i)
	case name == "max" && r.kind == kInt:
		o := arg(0)
		if o.i.Cmp(r.i) > 0 {
			return bigVal(o.i)
		}
		return bigVal(r.i)
	case (name == "low_bits" || name == "high_bits") && r.kind == kInt:
		o := arg(0)
		w := in.bitWidth(recv.MType())
		if w == 0 || o.i.Sign() < 0 || o.i.Cmp(big.NewInt(int64(w))) > 0 {
			in.fail("shift_out_of_range", "%q: bit count %s for a %d-bit value", n.Str(in.tm), o.i, w)
		}
		k := uint(o.i.Int64())
		z := new(big.Int)
		if name == "low_bits" {
			m := new(big.Int).Sub(new(big.Int).Lsh(big.NewInt(1), k), big.NewInt(1))
			return bigVal(z.And(r.i, m))
		}
		return bigVal(z.Rsh(r.i, uint(w)-k))
	}
	unsup("built-in method %s", name)
	return nil
}

// call runs fn. checkArgs: the arguments come from Wuffs code (the compiler
// claims to have proven they fit); public entry points are called with values
// the harness already drew inside the parameter types.
func (in *interp) call(fn *a.Func, argv map[t.ID]*val, checkArgs bool) (ret *val) {
	argExprs := in.nextArgExprs
	in.nextArgExprs = nil
	if fn.Effect().Coroutine() && in.inCoro == 0 {
		unsup("coroutine %s called outside the simulated caller", fn.FuncName().Str(in.tm))
	}
	in.depth++
	if in.depth > 64 {
		in.fail("recursion", "call depth exceeds 64 in %s: the compiler promises no recursion", fn.FuncName().Str(in.tm))
	}
	defer func() { in.depth-- }()
	f := &frame{fn: fn, locals: map[t.ID]*val{}, args: map[t.ID]*val{}}
	if fn.Effect().Coroutine() {
		f.argExprs = argExprs
	}
	for _, o := range fn.In().Fields() {
		fld := o.AsField()
		v, ok := argv[fld.Name()]
		if !ok {
			unsup("missing argument %s", fld.Name().Str(in.tm))
		}
		if checkArgs {
			in.fits("argument_outside_type", fld.XType(), v, fmt.Sprintf("argument %s of %s", fld.Name().Str(in.tm), fn.FuncName().Str(in.tm)))
		}
		f.args[fld.Name()] = v
	}
	in.frames = append(in.frames, f)
	defer func() {
		in.frames = in.frames[:len(in.frames)-1]
		if r := recover(); r != nil {
			if rs, ok := r.(retSignal); ok {
				ret = rs.v
				if ret != nil && fn.Out() != nil {
					in.fits("return_outside_type", fn.Out(), ret, "return value of "+fn.FuncName().Str(in.tm))
				}
				return
			}
			panic(r)
		}
	}()
	in.block(fn, fn.Body())
	if fn.Effect().Coroutine() {
		return statusVal("")
	}
	if fn.Out() != nil {
		return in.zero(fn.Out())
	}
	return nil
}

// ---- statements ----

func (in *interp) tick() {
	in.steps++
	if in.steps > in.maxStep {
		unsup("step budget (a long-running generated program; not a verdict)")
	}
}

func (in *interp) block(fn *a.Func, body []*a.Node) {
	for _, o := range body {
		in.tick()
		if in.observer != nil && !in.quiet {
			in.observer(in, fn, o, false)
		}
		in.stmt(fn, o)
	}
	// The block was left normally (no jump, no return): its end facts apply.
	if in.observer != nil && !in.quiet && len(body) > 0 {
		in.observer(in, fn, body[len(body)-1], true)
	}
}

func (in *interp) stmt(fn *a.Func, o *a.Node) {
	switch o.Kind() {
	case a.KVar:
		v := o.AsVar()
		in.cur().locals[v.Name()] = in.zero(v.XType())
		if in.cur().ltypes == nil {
			in.cur().ltypes = map[t.ID]*a.TypeExpr{}
		}
		in.cur().ltypes[v.Name()] = v.XType()
	case a.KAssert:
		// Evaluated by the C02 observer; nothing to execute.
	case a.KAssign:
		in.assign(o.AsAssign())
	case a.KIf:
		for n := o.AsIf(); n != nil; n = n.ElseIf() {
			if in.eval(n.Condition()).b {
				in.block(fn, n.BodyIfTrue())
				return
			}
			if n.ElseIf() == nil {
				in.block(fn, n.BodyIfFalse())
			}
		}
	case a.KWhile:
		in.while(fn, o.AsWhile())
	case a.KJump:
		j := o.AsJump()
		panic(jumpSignal{j.JumpTarget(), j.Keyword() == t.IDBreak})
	case a.KRet:
		r := o.AsRet()
		if r.Keyword() != t.IDReturn {
			st := in.eval(r.Value())
			if st == nil || st.kind != kStatus {
				unsup("yield of a non-status")
			}
			in.suspend(st)
			return
		}
		var v *val
		if r.Value() != nil {
			x := in.eval(r.Value())
			in.monitor(r.Value(), x)
			v = &val{}
			v.copyFrom(x)
		}
		panic(retSignal{v})
	default:
		unsup("statement kind %d", o.Kind())
	}
}

func (in *interp) while(fn *a.Func, w *a.While) {
	for {
		if !in.eval(w.Condition()).b {
			return
		}
		brk := false
		func() {
			defer func() {
				if r := recover(); r != nil {
					if js, ok := r.(jumpSignal); ok && js.target == a.Loop(w) {
						brk = js.brk
						return
					}
					panic(r)
				}
			}()
			in.block(fn, w.Body())
		}()
		if brk {
			return
		}
	}
}

func (in *interp) assign(n *a.Assign) {
	rhs := in.eval(n.RHS())
	in.monitor(n.RHS(), rhs)
	if n.LHS() == nil {
		return // an expression statement (a call)
	}
	dst := in.evalRef(n.LHS())
	lt := n.LHS().MType()
	op := n.Operator()
	if op == t.IDEq {
		in.fits("assignment_outside_type", lt, rhs, fmt.Sprintf("%q = %q", n.LHS().Str(in.tm), n.RHS().Str(in.tm)))
		dst.copyFrom(rhs)
		return
	}
	if dst.kind != kInt || rhs.kind != kInt {
		unsup("compound assignment on non-integers")
	}
	z := new(big.Int)
	width := in.bitWidth(lt)
	lo, hi, ok := in.typeRange(lt.Unrefined())
	if !ok {
		unsup("compound assignment type")
	}
	modular, saturating := false, false
	switch op {
	case t.IDPlusEq:
		z.Add(dst.i, rhs.i)
	case t.IDMinusEq:
		z.Sub(dst.i, rhs.i)
	case t.IDStarEq:
		z.Mul(dst.i, rhs.i)
	case t.IDSlashEq, t.IDPercentEq:
		if rhs.i.Sign() == 0 {
			in.fail("division_by_zero", "%q: division by zero", n.LHS().Str(in.tm))
		}
		if op == t.IDSlashEq {
			z.Quo(dst.i, rhs.i)
		} else {
			z.Rem(dst.i, rhs.i)
		}
	case t.IDAmpEq:
		z.And(dst.i, rhs.i)
	case t.IDPipeEq:
		z.Or(dst.i, rhs.i)
	case t.IDHatEq:
		z.Xor(dst.i, rhs.i)
	case t.IDShiftLEq, t.IDShiftREq, t.IDTildeModShiftLEq:
		if rhs.i.Sign() < 0 || rhs.i.Cmp(big.NewInt(int64(width))) >= 0 {
			in.fail("shift_out_of_range", "%q: shift amount %s for a %d-bit type", n.LHS().Str(in.tm), rhs.i, width)
		}
		s := uint(rhs.i.Int64())
		if op == t.IDShiftREq {
			z.Rsh(dst.i, s)
		} else {
			z.Lsh(dst.i, s)
			modular = op == t.IDTildeModShiftLEq
		}
	case t.IDTildeModPlusEq:
		z.Add(dst.i, rhs.i)
		modular = true
	case t.IDTildeModMinusEq:
		z.Sub(dst.i, rhs.i)
		modular = true
	case t.IDTildeModStarEq:
		z.Mul(dst.i, rhs.i)
		modular = true
	case t.IDTildeSatPlusEq:
		z.Add(dst.i, rhs.i)
		saturating = true
	case t.IDTildeSatMinusEq:
		z.Sub(dst.i, rhs.i)
		saturating = true
	default:
		unsup("assignment operator %s", op.Str(in.tm))
	}
	switch {
	case modular:
		z.Mod(z, new(big.Int).Lsh(big.NewInt(1), uint(width)))
	case saturating:
		if z.Cmp(lo) < 0 {
			z.Set(lo)
		}
		if z.Cmp(hi) > 0 {
			z.Set(hi)
		}
	default:
		if z.Cmp(lo) < 0 || z.Cmp(hi) > 0 {
			in.fail("arithmetic_overflow", "%q %s %q evaluated to %s, outside %s", n.LHS().Str(in.tm), op.Str(in.tm), n.RHS().Str(in.tm), z, lt.Unrefined().Str(in.tm))
		}
	}
	res := bigVal(z)
	in.fits("assignment_outside_type", lt, res, fmt.Sprintf("%q %s %q", n.LHS().Str(in.tm), op.Str(in.tm), n.RHS().Str(in.tm)))
	dst.i = res.i
}

// evalFact evaluates a boolean fact on the current state in ideal integers.
// ok is false when the fact cannot be evaluated (outside the subset, an index
// out of range inside the fact itself, an impure call, the step budget): such
// a fact is skipped and counted, never reported.
func (in *interp) evalFact(f *a.Expr) (truth bool, ok bool, why string) {
	if in.quiet {
		return false, false, "nested"
	}
	in.quiet = true
	nframes, depth := len(in.frames), in.depth
	defer func() {
		in.quiet = false
		if r := recover(); r != nil {
			in.frames, in.depth = in.frames[:nframes], depth
			switch x := r.(type) {
			case quietAbort:
				truth, ok, why = false, false, x.why
			case unsupported:
				truth, ok, why = false, false, x.what
			default:
				panic(r)
			}
		}
	}()
	v := in.eval(f)
	if v == nil || v.kind != kBool {
		return false, false, "not boolean"
	}
	return v.b, true, ""
}
