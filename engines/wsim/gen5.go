package main

// generateSliceProgram: slices of an array field with constant and
// non-constant bounds, re-slicing, indexing against recorded or guarded
// length facts, stores through slices. A source for C01, C02 and C04.

import (
	"fmt"
	"strings"

	"verif/sim"
)

func generateSliceProgram(tp *sim.Tape) string {
	var sb strings.Builder
	n := []int{8, 16, 4}[tp.Pick(3, 3, 1)]
	fmt.Fprintf(&sb, "pub struct foo?(\n\tbuf : array[%d] base.u8,\n\twide : array[8] base.u32,\n\tf0 : base.u32,\n)\n\n", n)
	sb.WriteString("pub func foo.fill!(v: base.u8) {\n\tvar i : base.u32\n")
	fmt.Fprintf(&sb, "\twhile i < %d {\n\t\tthis.buf[i] = args.v ~mod+ ((i & 0xFF) as base.u8)\n\t\ti += 1\n\t}\n}\n\n", n)
	mech := map[string]string{"fill": "helper"}
	nm := 1 + tp.Draw(2)
	for m := 0; m < nm; m++ {
		fmt.Fprintf(&sb, "pub func foo.m%d!(a0: base.u32, a1: base.u32) base.u32 {\n", m)
		sb.WriteString("\tvar s : slice base.u8\n\tvar t : slice base.u8\n\tvar i : base.u32\n\tvar j : base.u32\n\tvar r : base.u32\n")
		fmt.Fprintf(&sb, "\tvar ws : slice base.u32\n\tvar la : array[%d] base.u8\n", n)
		fmt.Fprintf(&sb, "\ti = args.a0 & %d\n\tj = args.a1 & %d\n", []int{3, 7, 15, 31}[tp.Draw(4)], []int{3, 7, 15, 31}[tp.Draw(4)])
		k := func() int { return tp.Draw(n + 1) }
		ns := 3 + tp.Draw(6)
		for q := 0; q < ns; q++ {
			var l []string
			switch tp.Pick(2, 4, 4, 3, 3, 2, 2, 1, 3, 2, 3, 3) {
			case 10: // slices and elements wider than a byte
				a, b := tp.Draw(9), tp.Draw(9)
				if a > b {
					a, b = b, a
				}
				l = []string{fmt.Sprintf("this.wide[i & 7] = (args.a1 ~mod* %d) ~mod+ j", 1+tp.Draw(1000)), fmt.Sprintf("ws = this.wide[%d .. %d]", a, b)}
				if b > a {
					c := tp.Draw(b - a)
					l = append(l, fmt.Sprintf("r ~mod+= ws[%d]", c), fmt.Sprintf("ws[%d] = r ~mod+ %d", c, tp.Draw(5)))
				}
				l = append(l, "r ~mod+= (ws.length() & 0xFF) as base.u32")
			case 11: // whole-array assignment and a local array
				l = [][]string{
					{"la = this.buf", fmt.Sprintf("la[i & %d] = (r & 0xFF) as base.u8", n-1), "this.buf = la"},
					{"la = this.buf", fmt.Sprintf("r ~mod+= la[j & %d] as base.u32", n-1)},
					{fmt.Sprintf("la[%d] = 9", tp.Draw(n)), "this.buf = la", "s = this.buf[..]"},
				}[tp.Draw(3)]
			case 0:
				l = []string{"s = this.buf[..]"}
			case 1: // constant bounds
				a, b := k(), k()
				if a > b {
					a, b = b, a
				}
				l = []string{fmt.Sprintf("s = this.buf[%d .. %d]", a, b)}
				if b > a && tp.Chance(3, 4) {
					// a use that the recorded length (b - a) justifies - or,
					// one time in five, just does not (index == length)
					c := tp.Draw(b - a)
					if tp.Chance(1, 5) {
						c = b - a
					}
					switch tp.Pick(3, 1, 1) {
					case 0:
						l = append(l, fmt.Sprintf("r ~mod+= s[%d] as base.u32", c))
					case 1:
						l = append(l, fmt.Sprintf("s[%d] = 7", c))
					default:
						l = append(l, fmt.Sprintf("t = s[.. %d]", c))
					}
				}
			case 2: // non-constant lower bound, constant upper bound
				b := k()
				l = []string{fmt.Sprintf("if i <= %d {", b), fmt.Sprintf("\ts = this.buf[i .. %d]", b), "}"}
				if tp.Chance(1, 3) {
					l = []string{fmt.Sprintf("if i <= %d {", b), fmt.Sprintf("\ts = this.buf[i .. %d]", b), g5use(tp, "s", n), "}"}
				}
			case 3: // constant lower bound, non-constant upper bound
				a := k()
				l = []string{fmt.Sprintf("if j >= %d {", a), fmt.Sprintf("\tif j <= %d {", n), fmt.Sprintf("\t\ts = this.buf[%d .. j]", a), "\t}", "}"}
			case 4: // both non-constant
				l = []string{"if i <= j {", fmt.Sprintf("\tif j <= %d {", n), "\t\ts = this.buf[i .. j]", "\t}", "}"}
			case 5: // re-slicing
				a := tp.Draw(5)
				if tp.Bool() {
					l = []string{fmt.Sprintf("if s.length() >= %d {", a), fmt.Sprintf("\tt = s[%d ..]", a), "}"}
				} else {
					l = []string{fmt.Sprintf("if s.length() >= %d {", a), fmt.Sprintf("\tt = s[.. %d]", a), "}"}
				}
			case 6:
				l = []string{[]string{"t = s", "s = t"}[tp.Draw(2)]}
			case 7: // use against whatever length fact is held
				l = []string{g5use(tp, []string{"s", "t"}[tp.Pick(3, 1)], n)[1:]}
			case 8: // guarded use
				c := tp.Draw(n)
				v := []string{"s", "t"}[tp.Draw(2)]
				l = []string{fmt.Sprintf("if %d < %s.length() {", c, v), fmt.Sprintf("\tr ~mod+= %s[%d] as base.u32", v, c), "}"}
			default:
				v := []string{"s", "t"}[tp.Draw(2)]
				l = []string{fmt.Sprintf("r ~mod+= (%s.length() & 0xFF) as base.u32", v)}
			}
			for _, x := range l {
				sb.WriteString("\t" + x + "\n")
			}
		}
		sb.WriteString("\treturn r\n}\n\n")
		mech[fmt.Sprintf("m%d", m)] = "slice"
	}
	lastGenMech = mech
	return sb.String()
}

// g5use returns one (tab-prefixed) statement that indexes or stores through
// the slice at a constant position: provable only from a recorded length fact.
func g5use(tp *sim.Tape, v string, n int) string {
	c := tp.Draw(n)
	switch tp.Pick(3, 1, 1) {
	case 1:
		return fmt.Sprintf("\t%s[%d] = 7", v, c)
	case 2:
		return fmt.Sprintf("\tt = %s[.. %d]", v, c)
	}
	return fmt.Sprintf("\tr ~mod+= %s[%d] as base.u32", v, c)
}
