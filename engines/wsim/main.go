// Engine D ("wsim"): executable reference semantics for Wuffs (C01; C02 and C04
// to follow). A Wuffs program - from a hand-written corpus of the mechanisms the
// property names, or from a seeded generator biased toward near misses - is
// given to the working tree's tokenizer, parser and checker; an ACCEPTED
// program is then executed by the interpreter of interp.go under seeded
// histories of public-method calls, and the C01 monitor checks every value
// against the range the compiler derived for it and every index, slice, shift,
// division, conversion, assignment, argument and return against the actual
// lengths and types. Any monitor hit means the compiler accepted an unsafe
// program.
package main

import (
	"fmt"
	"math/big"
	"os"
	"sort"
	"strings"

	a "github.com/google/wuffs/lang/ast"
	"github.com/google/wuffs/lang/check"
	"github.com/google/wuffs/lang/parse"
	t "github.com/google/wuffs/lang/token"

	"verif/sim"
)

func main() {
	sim.WorkerMain(sim.EngineSpec{
		Name: "wsim",
		Props: map[string]sim.PropSpec{
			"C01": {Run: runC01, Modes: []string{"generated", "corpus", "generated", "expr", "coro", "slice", "coro"}},
			"C02": {Run: runC02, Modes: []string{"generated", "corpus", "axioms", "flow", "expr", "coro", "slice", "flow", "coro"}},
			"C04": {Run: runC04, Modes: []string{"expr", "coro", "generated", "expr", "coro", "slice", "coro", "flow", "corpus"}},
		},
	})
}

type program struct {
	tm    *t.Map
	strct *a.Struct
	funcs map[t.ID]*a.Func
	pubs  []*a.Func
	// C02: the fact list the checker held before each statement, and how often
	// the checker visited the statement (facts of a statement visited more than
	// once are ambiguous and not evaluated).
	facts  map[factKey][]*a.Expr
	visits map[factKey]int
}

// factKey: before a statement, or (after) at the end of the block whose last
// statement it is.
type factKey struct {
	stmt  *a.Node
	after bool
}

// load runs the working tree's front end. A non-nil error means "rejected".
func load(src string) (p *program, err error) {
	defer func() {
		if r := recover(); r != nil {
			// A crash of the toolchain is C11's subject, not C01's.
			err = fmt.Errorf("front end panicked: %v", r)
			p = nil
		}
	}()
	tm := &t.Map{}
	tokens, _, err := t.Tokenize(tm, "gen.wuffs", []byte(src))
	if err != nil {
		return nil, err
	}
	file, err := parse.Parse(tm, "gen.wuffs", tokens, nil)
	if err != nil {
		return nil, err
	}
	facts, visits := map[factKey][]*a.Expr{}, map[factKey]int{}
	installFactObserver(func(fn *a.Func, stmt *a.Node, after bool, fs []*a.Expr) {
		k := factKey{stmt, after}
		facts[k] = fs
		visits[k]++
	})
	if _, err := check.Check(tm, []*a.File{file}, nil); err != nil {
		return nil, err
	}
	p = &program{tm: tm, funcs: map[t.ID]*a.Func{}, facts: facts, visits: visits}
	for _, n := range file.TopLevelDecls() {
		switch n.Kind() {
		case a.KStruct:
			p.strct = n.AsStruct()
		case a.KFunc:
			f := n.AsFunc()
			p.funcs[f.FuncName()] = f
			if f.Public() {
				p.pubs = append(p.pubs, f)
			}
		}
	}
	sort.Slice(p.pubs, func(i, j int) bool { return p.pubs[i].FuncName().Str(tm) < p.pubs[j].FuncName().Str(tm) })
	return p, nil
}

// drawInt draws a value inside [lo, hi], biased to the ends.
func drawInt(tp *sim.Tape, lo, hi *big.Int) *big.Int {
	span := new(big.Int).Sub(hi, lo)
	switch tp.Pick(3, 2, 2, 1, 1, 3) {
	case 0:
		return new(big.Int).Set(lo)
	case 1:
		return new(big.Int).Set(hi)
	case 2:
		d := big.NewInt(int64(tp.Draw(4)))
		if d.Cmp(span) > 0 {
			d = span
		}
		return d.Add(d, lo)
	case 3:
		d := big.NewInt(int64(tp.Draw(4)))
		if d.Cmp(span) > 0 {
			d = span
		}
		return d.Sub(hi, d)
	case 4:
		return new(big.Int).Add(lo, new(big.Int).Rsh(span, 1))
	}
	// somewhere inside: up to 62 random bits reduced into the span
	r := new(big.Int).SetUint64(uint64(tp.Draw(1<<30))<<31 | uint64(tp.Draw(1<<30)))
	if span.Sign() > 0 {
		r.Mod(r, new(big.Int).Add(span, big.NewInt(1)))
	} else {
		r.SetInt64(0)
	}
	return r.Add(r, lo)
}

type execResult struct {
	calls       []string
	viol        *violation
	unsupported string
	checks      int
	steps       int
	suspensions int
	output      []byte // what coroutines wrote to the destination
	// driveHistory only: the interpreter (for a final state dump), the recorded
	// caller actions, the source stream and the destination capacity
	interp *interp
	steps2 []driveStep
	stream []byte
	dstCap int
}

// execute runs a seeded history of public calls on a fresh receiver.
func execute(p *program, tp *sim.Tape, ncalls int, observer func(*interp, *a.Func, *a.Node, bool)) (res execResult) {
	in := &interp{tm: p.tm, funcs: p.funcs, strct: p.strct, this: map[t.ID]*val{}, maxStep: 200000, observer: observer}
	defer func() {
		res.checks, res.steps = in.nChecks, in.steps
		if r := recover(); r != nil {
			switch x := r.(type) {
			case *violation:
				res.viol = x
			case unsupported:
				res.unsupported = x.what
			default:
				panic(r)
			}
		}
	}()
	if p.strct != nil {
		for _, o := range p.strct.Fields() {
			f := o.AsField()
			in.this[f.Name()] = in.zero(f.XType())
		}
	}
	if len(p.pubs) == 0 {
		unsup("no public method")
	}
	for i := 0; i < ncalls; i++ {
		fn := p.pubs[tp.Draw(len(p.pubs))]
		argv := map[t.ID]*val{}
		var shown []string
		for _, o := range fn.In().Fields() {
			fld := o.AsField()
			lo, hi, ok := in.typeRange(fld.XType())
			switch {
			case ok:
				argv[fld.Name()] = bigVal(drawInt(tp, lo, hi))
			case fld.XType().IsBool():
				argv[fld.Name()] = boolVal(tp.Bool())
			default:
				unsup("parameter type %s", fld.XType().Str(p.tm))
			}
			shown = append(shown, fld.Name().Str(p.tm)+": "+argv[fld.Name()].String())
		}
		res.calls = append(res.calls, fn.FuncName().Str(p.tm)+"("+strings.Join(shown, ", ")+")")
		ret := in.call(fn, argv, false)
		if ret != nil {
			res.calls[len(res.calls)-1] += " -> " + ret.String()
		}
	}
	return res
}

func runC01(tp *sim.Tape, opt sim.RunOpt) *sim.Outcome {
	o := &sim.Outcome{}
	var src, name string
	var mech map[string]string
	if opt.Mode == "corpus" {
		c := corpus[tp.Draw(len(corpus))]
		src, name = c.src, "corpus:"+c.name
	} else if opt.Mode == "expr" {
		src = generateExprProgram(tp)
		name, mech = "generated-expr", lastGenMech
	} else if opt.Mode == "coro" {
		src = generateCoroProgram(tp)
		name, mech = "generated-coro", lastGenMech
	} else if opt.Mode == "slice" {
		src = generateSliceProgram(tp)
		name, mech = "generated-slice", lastGenMech
	} else {
		src = generate(tp)
		name, mech = "generated", lastGenMech
	}
	fp := sim.NewFP()
	fp.AddStr(src)
	p, err := load(src)
	if err != nil {
		o.Probe("rejected_by_compiler")
		o.Probe("rejected_by_compiler mode=" + opt.Mode)
		if opt.Mode == "corpus" {
			o.Probe("corpus_rejected: " + name)
		}
		o.FP = fp.Sum()
		return o
	}
	o.Probe("accepted_by_compiler")
	o.Probe("accepted_by_compiler mode=" + opt.Mode)
	for _, m := range mech {
		if m != "helper" {
			o.Probe("accepted_mechanism " + m)
		}
	}
	var res execResult
	if opt.Mode == "coro" {
		res = driveHistory(p, tp, nil)
		o.ProbeN("suspensions", int64(res.suspensions))
		if res.suspensions > 0 {
			o.Probe("runs_with_a_suspension")
		}
	} else {
		res = execute(p, tp, 1+tp.Draw(8), nil)
	}
	for _, c := range res.calls {
		fp.AddStr(c)
	}
	o.FP = fp.Sum()
	o.Steps = int64(res.steps)
	o.ProbeN("monitor_checks", int64(res.checks))
	o.Nontrivial = res.steps > 10
	o.Sample = map[string]interface{}{"program": name, "source": src, "calls": res.calls}
	if opt.Verbose {
		o.Tracef("%s", name)
		for _, l := range strings.Split(src, "\n") {
			o.Tracef("    %s", l)
		}
		for _, c := range res.calls {
			o.Tracef("call %s", c)
		}
	}
	switch {
	case res.unsupported != "":
		o.Probe("skipped_unsupported")
		o.Probe("unsupported: " + firstWords(res.unsupported, 3))
	case res.viol != nil:
		key := res.viol.class
		if opt.Mode == "corpus" {
			key += ":" + strings.TrimPrefix(name, "corpus:")
		} else if m := mech[res.viol.fn]; m != "" {
			// keyed by the mechanism of the method that was executing
			key += ":" + m
		}
		o.Fail(res.viol.class, key, "the compiler ACCEPTED this program, and executing it under the language's semantics violates safety: %s; history: %s; program (%s):\n%s",
			res.viol.what, strings.Join(res.calls, "; "), name, src)
	default:
		o.Probe("executed_safely")
	}
	return o
}

func firstWords(s string, n int) string {
	f := strings.Fields(s)
	if len(f) > n {
		f = f[:n]
	}
	return strings.Join(f, " ")
}

var _ = os.Exit
