package main

// The seeded program generator. Every public method sets up ONE proof
// obligation (an index, a slice, a narrowing conversion, a non-modular
// arithmetic result) that is provable only because of a fact (a guard, a mask,
// a refinement, a loop condition), and then - or not - puts a statement that
// should kill that fact between the guard and the use. Programs the compiler
// rejects are discarded (counted); accepted ones are executed. The mechanism
// used by each method is recorded so that a finding is keyed by mechanism.

import (
	"fmt"
	"strings"

	"verif/sim"
)

type genCtx struct {
	tp     *sim.Tape
	sb     strings.Builder
	nlocal int
	// the struct
	scalars []genVar // numeric fields
	arrays  []genArr
	// per method
	mech map[string]string // method name -> mechanism tag
}

type genVar struct {
	name string // "this.f0", "args.a0", "v1"
	typ  string // "base.u32"
	bits int
}

type genArr struct {
	name string // "this.arr0"
	n    int
	elem string
	bits int
}

var intTypes = []struct {
	name string
	bits int
}{{"base.u8", 8}, {"base.u16", 16}, {"base.u32", 32}, {"base.u64", 64}}

// lastGenMech is set by generate for the engine to look up mechanisms.
var lastGenMech map[string]string

func generate(tp *sim.Tape) string {
	g := &genCtx{tp: tp, mech: map[string]string{}}
	g.sb.WriteString("pub struct foo?(\n")
	ns := 2 + tp.Draw(3)
	for i := 0; i < ns; i++ {
		it := intTypes[tp.Pick(2, 2, 4, 1)]
		v := genVar{fmt.Sprintf("this.f%d", i), it.name, it.bits}
		g.scalars = append(g.scalars, v)
		fmt.Fprintf(&g.sb, "\tf%d : %s,\n", i, it.name)
	}
	na := 1 + tp.Draw(2)
	for i := 0; i < na; i++ {
		n := []int{2, 3, 4, 8, 16, 5, 256}[tp.Pick(1, 1, 3, 4, 2, 1, 1)]
		it := intTypes[tp.Pick(4, 2, 2, 0)]
		g.arrays = append(g.arrays, genArr{fmt.Sprintf("this.arr%d", i), n, it.name, it.bits})
		fmt.Fprintf(&g.sb, "\tarr%d : array[%d] %s,\n", i, n, it.name)
	}
	g.sb.WriteString(")\n\n")
	// helpers: a pure getter per scalar field 0, an impure mutator
	fmt.Fprintf(&g.sb, "pub func foo.get0() %s {\n\treturn this.f0\n}\n\n", g.scalars[0].typ)
	fmt.Fprintf(&g.sb, "pub func foo.mut0!(v: %s) {\n\tthis.f0 = args.v\n}\n\n", g.scalars[0].typ)
	g.mech["get0"], g.mech["mut0"] = "helper", "helper"
	nm := 1 + tp.Draw(3)
	for i := 0; i < nm; i++ {
		g.method(i)
	}
	lastGenMech = g.mech
	return g.sb.String()
}

func (g *genCtx) local(typ string) string {
	g.nlocal++
	return fmt.Sprintf("v%d", g.nlocal)
}

func (g *genCtx) pickArr() genArr { return g.arrays[g.tp.Draw(len(g.arrays))] }

// method emits one public method.
func (g *genCtx) method(k int) {
	tp := g.tp
	name := fmt.Sprintf("m%d", k)
	arr := g.pickArr()
	// arguments
	nargs := 1 + tp.Draw(2)
	var args []genVar
	var sig []string
	for i := 0; i < nargs; i++ {
		it := intTypes[tp.Pick(2, 2, 4, 1)]
		typ := it.name
		if tp.Chance(1, 4) {
			typ = fmt.Sprintf("%s[..= %d]", it.name, []int{arr.n - 1, arr.n, 7, 255}[tp.Draw(4)])
		}
		args = append(args, genVar{fmt.Sprintf("args.a%d", i), it.name, it.bits})
		sig = append(sig, fmt.Sprintf("a%d: %s", i, typ))
	}
	var decl, body []string
	// the index variable: a local, a field, an argument, or a pure call
	idxKind := []string{"local", "field", "arg", "purecall"}[tp.Pick(4, 3, 2, 2)]
	var idx, idxTyp string
	idxBits := 32
	switch idxKind {
	case "local":
		it := intTypes[tp.Pick(1, 1, 4, 1)]
		idx, idxTyp, idxBits = g.local(it.name), it.name, it.bits
		decl = append(decl, fmt.Sprintf("var %s : %s", idx, it.name))
		src := args[tp.Draw(len(args))]
		if src.bits <= idxBits {
			if src.bits < idxBits {
				body = append(body, fmt.Sprintf("%s = %s as %s", idx, src.name, it.name))
			} else {
				body = append(body, fmt.Sprintf("%s = %s", idx, src.name))
			}
		}
	case "field":
		f := g.scalars[tp.Draw(len(g.scalars))]
		idx, idxTyp, idxBits = f.name, f.typ, f.bits
	case "arg":
		idx, idxTyp, idxBits = args[0].name, args[0].typ, args[0].bits
	case "purecall":
		idx, idxTyp, idxBits = "this.get0()", g.scalars[0].typ, g.scalars[0].bits
	}
	_ = idxTyp
	effect := "!"
	// the guard that establishes idx < arr.n
	guardKind := tp.Pick(5, 3, 2, 2, 2, 2)
	killer := g.killer(idx, idxKind, idxBits, args)
	use := g.use(arr, idx, args)
	switch guardKind {
	case 0: // if idx < n { [killer] use }
		cmp := []string{fmt.Sprintf("%s < %d", idx, arr.n), fmt.Sprintf("%s <= %d", idx, arr.n-1), fmt.Sprintf("%d > %s", arr.n, idx),
			fmt.Sprintf("%s <= %d", idx, arr.n), fmt.Sprintf("%s < %d", idx, arr.n+1),
			fmt.Sprintf("%d >= %s", arr.n-1, idx), fmt.Sprintf("%d >= %s", arr.n, idx)}[tp.Pick(4, 3, 2, 1, 1, 3, 1)]
		body = append(body, fmt.Sprintf("if %s {", cmp))
		for _, l := range append(killer, use...) {
			body = append(body, "\t"+l)
		}
		body = append(body, "}")
		g.mech[name] = "if_guard/idx=" + idxKind + "/" + killerName(killer)
	case 1: // mask (power-of-two arrays) or min()
		if idxKind == "local" {
			if arr.n&(arr.n-1) == 0 && tp.Bool() {
				body = append(body, fmt.Sprintf("%s = %s & %d", idx, idx, arr.n-1))
			} else {
				body = append(body, fmt.Sprintf("%s = %s.min(no_more_than: %d)", idx, idx, arr.n-1))
			}
			body = append(body, killer...)
			body = append(body, use...)
			g.mech[name] = "mask_or_min/idx=local/" + killerName(killer)
		} else {
			body = append(body, fmt.Sprintf("if %s < %d {", idx, arr.n))
			for _, l := range append(killer, use...) {
				body = append(body, "\t"+l)
			}
			body = append(body, "}")
			g.mech[name] = "if_guard/idx=" + idxKind + "/" + killerName(killer)
		}
	case 2: // while loop over the array
		it := "base.u32"
		i := g.local(it)
		decl = append(decl, fmt.Sprintf("var %s : %s", i, it))
		cond := []string{fmt.Sprintf("%s < %d", i, arr.n), fmt.Sprintf("%s <= %d", i, arr.n)}[tp.Pick(5, 1)]
		step := []string{fmt.Sprintf("%s += 1", i), fmt.Sprintf("%s += 2", i), fmt.Sprintf("%s ~mod+= 1", i)}[tp.Pick(4, 1, 1)]
		lk := g.killer(i, "local", 32, args)
		body = append(body, fmt.Sprintf("%s = 0", i), fmt.Sprintf("while %s {", cond))
		inner := append(append([]string{}, lk...), g.use(arr, i, args)...)
		if tp.Bool() {
			inner = append(g.use(arr, i, args), lk...)
			inner = append(inner, g.use(arr, i, args)...)
		}
		for _, l := range inner {
			body = append(body, "\t"+l)
		}
		body = append(body, "\t"+step, "}")
		g.mech[name] = "while_loop/" + killerName(lk)
	case 3: // narrowing / arithmetic obligation
		w := g.local("base.u8")
		decl = append(decl, fmt.Sprintf("var %s : base.u8", w))
		src := args[tp.Draw(len(args))]
		guard := []string{fmt.Sprintf("%s < 256", src.name), fmt.Sprintf("%s <= 255", src.name), fmt.Sprintf("%s <= 256", src.name)}[tp.Pick(3, 2, 1)]
		k2 := g.killer(src.name, "arg", src.bits, args)
		if src.bits == 8 {
			body = append(body, fmt.Sprintf("%s = %s ~mod+ 1", w, src.name))
			g.mech[name] = "arith/u8"
		} else {
			body = append(body, fmt.Sprintf("if %s {", guard))
			for _, l := range k2 {
				body = append(body, "\t"+l)
			}
			body = append(body, fmt.Sprintf("\t%s = %s as base.u8", w, src.name), "}")
			g.mech[name] = "narrowing_as/" + killerName(k2)
		}
		body = append(body, fmt.Sprintf("%s[%d] = %s as %s", arr.name, tp.Draw(arr.n), w, arr.elem))
	}
	switch guardKind {
	case 4: // the derived range of a modular shift of a refined operand
		lo := tp.Draw(40)
		hi := lo + tp.Draw(60)
		if hi > 255 {
			hi = 255
		}
		y := g.local("base.u8")
		decl = append(decl, fmt.Sprintf("var %s : base.u8", y))
		// The refined operand is an argument: a refined local must admit zero.
		sig = append(sig, fmt.Sprintf("r: base.u8[%d ..= %d]", lo, hi))
		op := []string{"~mod<<", "~mod+", "~mod-", "~mod*"}[tp.Pick(4, 1, 1, 1)]
		rhs := 1 + tp.Draw(7)
		if op != "~mod<<" {
			rhs = tp.Draw(256)
		}
		body = []string{
			fmt.Sprintf("%s = args.r %s %d", y, op, rhs),
			fmt.Sprintf("%s[%d] = %s as %s", arr.name, tp.Draw(arr.n), y, arr.elem),
		}
		if arr.bits < 8 {
			body = body[:1]
		}
		g.mech[name] = "modshift_range/" + strings.TrimPrefix(op, "~")
	case 5: // a fact about a slice's length, then the slice is re-assigned
		s, i := g.local("s"), g.local("base.u64")
		decl = append(decl, fmt.Sprintf("var %s : slice %s", s, arr.elem), fmt.Sprintf("var %s : base.u64", i))
		src := args[0]
		conv := src.name
		if src.bits < 64 {
			conv = fmt.Sprintf("%s as base.u64", src.name)
		}
		body = []string{fmt.Sprintf("%s = %s", i, conv), fmt.Sprintf("%s = %s[..]", s, arr.name), fmt.Sprintf("if %s < %s.length() {", i, s)}
		k := [][]string{nil, {fmt.Sprintf("%s = %s[.. 0]", s, s)}, {fmt.Sprintf("%s = %s[.. 1]", s, arr.name)}, {fmt.Sprintf("%s ~mod+= 1", i)}}[tp.Pick(2, 2, 2, 1)]
		for _, l := range k {
			body = append(body, "\t"+l)
		}
		body = append(body, fmt.Sprintf("\t%s[%s] = 3", s, i), "}")
		g.mech[name] = "slice_length_fact/" + map[bool]string{true: "no_killer", false: "killer=slice_reassign_or_index_bump"}[k == nil]
	}
	fmt.Fprintf(&g.sb, "pub func foo.%s%s(%s) {\n", name, effect, strings.Join(sig, ", "))
	for _, l := range decl {
		g.sb.WriteString("\t" + l + "\n")
	}
	for _, l := range body {
		g.sb.WriteString("\t" + l + "\n")
	}
	g.sb.WriteString("}\n\n")
}

func killerName(k []string) string {
	if len(k) == 0 {
		return "no_killer"
	}
	s := k[0]
	switch {
	case strings.Contains(s, "mut0"):
		return "killer=impure_call"
	case strings.Contains(s, "~mod+="):
		return "killer=modplus_assign"
	case strings.Contains(s, "+= "):
		return "killer=plus_assign"
	case strings.Contains(s, "-= "):
		return "killer=minus_assign"
	case strings.Contains(s, " = ") && strings.Contains(s, "+ 1"):
		return "killer=x_eq_x_plus_1"
	case strings.Contains(s, "this.f0 ="):
		return "killer=field_store"
	}
	return "killer=assign"
}

// killer returns zero or one statement that should invalidate a fact about idx.
func (g *genCtx) killer(idx, kind string, bits int, args []genVar) []string {
	tp := g.tp
	if tp.Chance(2, 5) {
		return nil
	}
	src := args[tp.Draw(len(args))]
	switch kind {
	case "local":
		switch tp.Pick(2, 2, 2, 1, 1, 1) {
		case 0:
			return []string{fmt.Sprintf("%s += 1", idx)}
		case 1:
			return []string{fmt.Sprintf("%s = %s + 1", idx, idx)}
		case 2:
			if src.bits == bits {
				return []string{fmt.Sprintf("%s = %s", idx, src.name)}
			}
			return []string{fmt.Sprintf("%s ~mod+= 1", idx)}
		case 3:
			return []string{fmt.Sprintf("%s -= %s", idx, idx)}
		case 4:
			return []string{fmt.Sprintf("%s ~mod+= 1", idx)}
		default:
			return []string{fmt.Sprintf("%s = %s ~mod+ 3", idx, idx)}
		}
	case "field":
		switch tp.Pick(2, 2, 1) {
		case 0:
			return []string{fmt.Sprintf("%s ~mod+= 1", idx)}
		case 1:
			if idx == "this.f0" {
				return []string{fmt.Sprintf("this.mut0!(v: %d)", 200)}
			}
			return []string{fmt.Sprintf("%s += 1", idx)}
		default:
			return []string{fmt.Sprintf("%s = 200", idx)}
		}
	case "purecall":
		switch tp.Pick(2, 2, 1) {
		case 0:
			return []string{"this.f0 = 200"}
		case 1:
			return []string{"this.mut0!(v: 200)"}
		default:
			return []string{"this.f0 ~mod+= 1"}
		}
	}
	return nil // arguments are read-only
}

// use emits the statement(s) carrying the obligation.
func (g *genCtx) use(arr genArr, idx string, args []genVar) []string {
	tp := g.tp
	switch tp.Pick(3, 3, 1, 1) {
	case 0:
		return []string{fmt.Sprintf("%s[%s] = %d", arr.name, idx, tp.Draw(200))}
	case 1:
		f := g.scalars[tp.Draw(len(g.scalars))]
		if f.bits >= arr.bits {
			if f.bits == arr.bits {
				return []string{fmt.Sprintf("%s = %s[%s]", f.name, arr.name, idx)}
			}
			return []string{fmt.Sprintf("%s = %s[%s] as %s", f.name, arr.name, idx, f.typ)}
		}
		return []string{fmt.Sprintf("%s[%s] = 1", arr.name, idx)}
	case 2:
		return []string{fmt.Sprintf("%s[%s] ~mod+= 1", arr.name, idx)}
	}
	return []string{fmt.Sprintf("%s[%s] = %s[%s] ~mod+ 1", arr.name, idx, arr.name, idx)}
}
