package main

// Generators for C02.
//
// generateFlowProgram: free-form control flow over a few u32 variables - the
// observer checks EVERY fact at EVERY statement, so a program does not need to
// "use" a fact for a wrong one to be seen. The grammar is chosen to exercise
// each place where lang/check creates, rewrites, reconciles or drops facts:
// "=", "+=", "-=", other compound operators, impure calls, field stores,
// if / else-if / else reconciliation, while loops with inv / post conditions,
// break and continue, asserts.
//
// generateAxiomProgram: one method per program that establishes the premises of
// one axiom of the working tree's lang/check/axioms.md by nested if-guards
// (exactly, or weakened: an operator relaxed, operands swapped, a premise
// dropped - the compiler must reject those) and then asserts the conclusion
// via that axiom. An accepted program's conclusion becomes a fact and is
// evaluated on drawn integers by the observer.

import (
	"fmt"
	"os"
	"path/filepath"
	"regexp"
	"strings"

	"verif/sim"
)

// ---- fact shapes (finding keys) ----

var reIdent = regexp.MustCompile(`~(mod|sat)|(this\.|args\.)?[a-z_][a-z0-9_]*(\(\))?|[0-9]+`)

// factShape abstracts a fact's text: identifiers become x, y, z... in order of
// first appearance, numbers become K. It names the mechanism of a false fact
// independently of the seed.
func factShape(s string) string {
	names := map[string]string{}
	letters := "xyzwuvpqrs"
	return reIdent.ReplaceAllStringFunc(s, func(m string) string {
		if m[0] >= '0' && m[0] <= '9' {
			return "K"
		}
		switch m {
		case "and", "or", "not", "as", "true", "false", "~mod", "~sat":
			return m
		}
		call := strings.HasSuffix(m, "()")
		if n, ok := names[m]; ok {
			return n
		}
		n := "t"
		if len(names) < len(letters) {
			n = string(letters[len(names)])
		}
		if call {
			n += "()"
		}
		names[m] = n
		return n
	})
}

// ---- flow programs ----

type flowGen struct {
	tp     *sim.Tape
	vars   []string
	labels int
	feats  map[string]bool
}

func (g *flowGen) v() string { return g.vars[g.tp.Draw(len(g.vars))] }
func (g *flowGen) k() int    { return []int{0, 1, 2, 3, 4, 7, 8, 9, 15, 16, 100, 255}[g.tp.Draw(12)] }
func (g *flowGen) mask() int { return []int{1, 3, 7, 15, 255}[g.tp.Draw(5)] }

func (g *flowGen) atom() string {
	tp := g.tp
	switch tp.Pick(3, 3, 3, 2, 1, 1) {
	case 0:
		return fmt.Sprint(g.k())
	case 1:
		return fmt.Sprintf("(args.a%d & %d)", tp.Draw(2), g.mask())
	case 2:
		return g.v()
	case 3:
		return fmt.Sprintf("this.f%d", tp.Draw(2))
	case 4:
		return "this.get0()"
	}
	return fmt.Sprintf("(%s & %d)", g.v(), g.mask())
}

func (g *flowGen) cond() string {
	tp := g.tp
	ops := []string{"<", "<=", "==", "<>", ">", ">="}
	simple := func() string {
		l := g.v()
		if tp.Chance(1, 6) {
			l = []string{"this.f0", "this.f1", "this.get0()"}[tp.Draw(3)]
		}
		r := fmt.Sprint(g.k())
		if tp.Chance(1, 4) {
			r = g.v()
		} else if tp.Chance(1, 8) {
			r = "this.f0"
		}
		if tp.Chance(1, 3) { // the same comparison written constant-first
			return fmt.Sprintf("%s %s %s", r, ops[tp.Pick(4, 3, 2, 2, 2, 2)], l)
		}
		return fmt.Sprintf("%s %s %s", l, ops[tp.Pick(4, 3, 2, 2, 2, 2)], r)
	}
	switch tp.Pick(6, 1, 1) {
	case 1:
		g.feats["and"] = true
		return fmt.Sprintf("(%s) and (%s)", simple(), simple())
	case 2:
		g.feats["or"] = true
		return fmt.Sprintf("(%s) or (%s)", simple(), simple())
	}
	return simple()
}

func ind(lines []string) []string {
	out := make([]string, len(lines))
	for i, l := range lines {
		out[i] = "\t" + l
	}
	return out
}

func (g *flowGen) block(depth, n int) []string {
	var out []string
	for i := 0; i < n; i++ {
		out = append(out, g.stmt(depth)...)
	}
	return out
}

func (g *flowGen) stmt(depth int) []string {
	tp := g.tp
	v := g.v()
	kind := tp.Pick(5, 3, 5, 4, 2, 3, 2, 1)
	if depth >= 3 && (kind == 3 || kind == 4) {
		kind = 0
	}
	if kind == 4 && len(g.vars) < 2 {
		kind = 2
	}
	if kind == 4 && tp.Chance(2, 5) {
		return g.trueLoop(depth)
	}
	switch kind {
	case 0: // plain assignment
		g.feats["assign"] = true
		return []string{fmt.Sprintf("%s = %s", v, g.atom())}
	case 1: // assignment whose right-hand side mentions other state
		g.feats["assign_expr"] = true
		switch tp.Pick(2, 2, 2, 1, 1) {
		case 0:
			return []string{fmt.Sprintf("%s = %s ~mod+ %d", v, g.v(), g.k())}
		case 1:
			return []string{fmt.Sprintf("%s = (%s & %d) + %d", v, g.v(), g.mask(), g.k())}
		case 2:
			k := 1 + g.k()
			g.feats["x_eq_x_plus"] = true
			return []string{fmt.Sprintf("if %s < %d {", v, k+tp.Draw(50)), fmt.Sprintf("\t%s = %s + %d", v, v, 1+tp.Draw(3)), "}"}
		case 3:
			g.feats["x_eq_x_minus"] = true
			return []string{fmt.Sprintf("if %s > %d {", v, 3+tp.Draw(50)), fmt.Sprintf("\t%s = %s - %d", v, v, 1+tp.Draw(3)), "}"}
		}
		return []string{fmt.Sprintf("%s = %s ~sat+ %s", v, g.v(), g.atom())}
	case 2: // compound assignment, guarded so that it can be proven
		w := g.v()
		switch tp.Pick(4, 3, 2, 2, 1, 1, 1, 1) {
		case 0:
			g.feats["plus_eq"] = true
			return []string{fmt.Sprintf("if %s < %d {", v, 1+g.k()+tp.Draw(100)), fmt.Sprintf("\t%s += %d", v, 1+tp.Draw(4)), "}"}
		case 1:
			g.feats["minus_eq"] = true
			c := 1 + tp.Draw(4)
			return []string{fmt.Sprintf("if %s >= %d {", v, c+tp.Draw(20)), fmt.Sprintf("\t%s -= %d", v, c), "}"}
		case 2:
			g.feats["plus_eq_var"] = true
			return []string{fmt.Sprintf("if %s < %d {", w, 1+tp.Draw(9)), fmt.Sprintf("\tif %s < %d {", v, 1+g.k()+tp.Draw(100)), fmt.Sprintf("\t\t%s += %s", v, w), "\t}", "}"}
		case 3:
			g.feats["minus_eq_var"] = true
			c := 1 + tp.Draw(9)
			return []string{fmt.Sprintf("if %s <= %d {", w, c), fmt.Sprintf("\tif %s >= %d {", v, c+tp.Draw(3)), fmt.Sprintf("\t\t%s -= %s", v, w), "\t}", "}"}
		case 4:
			g.feats["modplus_eq"] = true
			return []string{fmt.Sprintf("%s ~mod+= %s", v, g.atom())}
		case 5:
			g.feats["and_eq"] = true
			return []string{fmt.Sprintf("%s &= %d", v, g.mask())}
		case 6:
			g.feats["satplus_eq"] = true
			return []string{fmt.Sprintf("%s ~sat+= %s", v, g.atom())}
		}
		g.feats["star_eq"] = true
		return []string{fmt.Sprintf("if %s < %d {", v, 2+tp.Draw(100)), fmt.Sprintf("\t%s *= %d", v, 2+tp.Draw(3)), "}"}
	case 3: // if / else-if / else
		g.feats["if"] = true
		out := []string{fmt.Sprintf("if %s {", g.cond())}
		out = append(out, ind(g.block(depth+1, 1+tp.Draw(3)))...)
		if tp.Chance(1, 4) {
			g.feats["else_if"] = true
			out = append(out, fmt.Sprintf("} else if %s {", g.cond()))
			out = append(out, ind(g.block(depth+1, 1+tp.Draw(2)))...)
		}
		if tp.Chance(3, 5) {
			g.feats["else"] = true
			out = append(out, "} else {")
			out = append(out, ind(g.block(depth+1, 1+tp.Draw(3)))...)
		}
		return append(out, "}")
	case 4: // while loop
		g.feats["while"] = true
		g.labels++
		lbl := fmt.Sprintf("l%d", g.labels)
		bound := 1 + tp.Draw(12)
		head := []string{fmt.Sprintf("while.%s %s < %d,", lbl, v, bound)}
		entryGuard := ""
		condVar := ""   // the variable a pre / inv condition talks about
		condBreak := "" // an assignment that falsifies the condition
		if tp.Chance(1, 2) {
			w := g.v()
			condVar = w
			var inv string
			switch tp.Pick(3, 2, 2) {
			case 0:
				k := g.k() + tp.Draw(20)
				inv, condBreak = fmt.Sprintf("%s <= %d", w, k), fmt.Sprintf("%s = %d", w, k+1+tp.Draw(50))
			case 1:
				inv, condVar = fmt.Sprintf("%s <= %d", v, bound), ""
			default:
				k := 1 + tp.Draw(3)
				inv, condBreak = fmt.Sprintf("%s >= %d", w, k), fmt.Sprintf("%s = %d", w, tp.Draw(k))
			}
			kw := "inv"
			g.feats["pre_here"] = false
			if tp.Chance(1, 3) {
				kw = "pre"
				g.feats["pre_here"] = true
			}
			g.feats[kw] = true
			head = append(head, "\t\t"+kw+" "+inv+",")
			// usually established on entry by a guard around the loop
			if tp.Chance(4, 5) {
				entryGuard = inv
			}
		}
		if tp.Chance(1, 3) {
			g.feats["post"] = true
			head = append(head, fmt.Sprintf("\t\tpost %s >= %d,", v, bound-tp.Pick(6, 1)))
		}
		head = append(head, "{")
		var body []string
		// the loop variable must not be disturbed arbitrarily, or nothing is
		// accepted: the body works on the other variables.
		save := g.vars
		var others []string
		for _, o := range g.vars {
			// the condition's variable is left alone by ordinary statements, so
			// that the implicit continue can re-prove the condition; only the
			// explicit continue block below may disturb it
			if o != v && (o != condVar || len(g.vars) < 3) {
				others = append(others, o)
			}
		}
		g.vars = others
		body = append(body, g.block(depth+1, tp.Draw(3))...)
		if tp.Chance(1, 3) {
			g.feats["break"] = true
			body = append(body, fmt.Sprintf("if %s {", g.cond()), "\tbreak."+lbl, "}")
		}
		if tp.Chance(1, 3) || (condBreak != "" && g.feats["pre_here"] && tp.Chance(3, 4)) {
			g.feats["continue"] = true
			cc := g.cond()
			if tp.Chance(2, 3) {
				// usually taken on some iteration
				cc = fmt.Sprintf("%s <> %d", v, tp.Draw(bound+1))
			}
			blk := []string{fmt.Sprintf("if %s {", cc), fmt.Sprintf("\t%s += 1", v)}
			if condVar != "" && condVar != v && condBreak != "" && tp.Chance(2, 3) {
				// a near miss: the pre / inv condition must be re-proven here
				blk = append(blk, "\t"+condBreak)
			}
			body = append(body, append(blk, "\tcontinue."+lbl, "}")...)
		}
		g.vars = save
		step := []string{fmt.Sprintf("%s += 1", v), fmt.Sprintf("%s += 2", v), fmt.Sprintf("%s = %s + 1", v, v)}[tp.Pick(5, 1, 2)]
		body = append(body, step)
		if tp.Chance(1, 4) && len(others) >= 2 {
			// the body's last statement is itself a loop that is only left by
			// a break: the implicit continue of this loop comes right after it
			g.feats["body_ends_in_while_true"] = true
			g.vars = others
			if tp.Bool() {
				body = append(body, fmt.Sprintf("%s = %d", others[0], g.k()+tp.Draw(30)))
			}
			g.labels++
			il := fmt.Sprintf("l%d", g.labels)
			body = append(body, fmt.Sprintf("while.%s true {", il), "\twhile true {", "\t\tbreak."+il, "\t}", "}."+il)
			g.vars = save
		}
		out := append(head, ind(body)...)
		out = append(out, "}."+lbl)
		if entryGuard != "" {
			out = append(append([]string{"if " + entryGuard + " {"}, ind(out)...), "}")
		}
		return out
	case 5: // receiver state: field store, impure call, field compound
		switch tp.Pick(3, 2, 2, 1) {
		case 0:
			g.feats["field_store"] = true
			return []string{fmt.Sprintf("this.f%d = %s", tp.Draw(2), g.atom())}
		case 1:
			g.feats["impure_call"] = true
			return []string{fmt.Sprintf("this.mut0!(v: %s)", g.atom())}
		case 2:
			g.feats["field_plus_eq"] = true
			f := tp.Draw(2)
			return []string{fmt.Sprintf("if this.f%d < %d {", f, 1+g.k()), fmt.Sprintf("\tthis.f%d += 1", f), "}"}
		}
		g.feats["field_from_call"] = true
		return []string{fmt.Sprintf("%s = this.get0()", v)}
	case 6: // assert something the bounds imply
		g.feats["assert"] = true
		k := g.k()
		return []string{fmt.Sprintf("if %s < %d {", v, k+1), fmt.Sprintf("\tassert %s < %d", v, k+1+tp.Draw(3)), fmt.Sprintf("\tthis.f1 = %s", v), "}"}
	}
	g.feats["array"] = true
	return []string{fmt.Sprintf("if %s < 16 {", v), fmt.Sprintf("\tthis.arr[%s] = 1", v), "}"}
}

func generateFlowProgram(tp *sim.Tape) string {
	g := &flowGen{tp: tp, feats: map[string]bool{}}
	var sb strings.Builder
	sb.WriteString("pub struct foo?(\n\tf0 : base.u32,\n\tf1 : base.u32,\n\tarr : array[16] base.u8,\n)\n\n")
	sb.WriteString("pub func foo.get0() base.u32 {\n\treturn this.f0\n}\n\n")
	sb.WriteString("pub func foo.mut0!(v: base.u32) {\n\tthis.f0 = args.v\n}\n\n")
	mech := map[string]string{"get0": "helper", "mut0": "helper"}
	nm := 1 + tp.Draw(2)
	for m := 0; m < nm; m++ {
		nv := 2 + tp.Draw(3)
		g.vars = nil
		for i := 0; i < nv; i++ {
			g.vars = append(g.vars, fmt.Sprintf("v%d", i))
		}
		fmt.Fprintf(&sb, "pub func foo.m%d!(a0: base.u32, a1: base.u32) {\n", m)
		for _, v := range g.vars {
			fmt.Fprintf(&sb, "\tvar %s : base.u32\n", v)
		}
		// Unknown starting values: a variable the compiler knows to be zero
		// makes most guards contradictory (and the program rejected).
		for i, v := range g.vars {
			switch tp.Pick(3, 2, 1) {
			case 0:
				fmt.Fprintf(&sb, "\t%s = args.a%d\n", v, i%2)
			case 1:
				fmt.Fprintf(&sb, "\t%s = args.a%d & %d\n", v, i%2, []int{255, 15, 65535}[tp.Draw(3)])
			}
		}
		for _, l := range g.block(0, 3+tp.Draw(6)) {
			sb.WriteString("\t" + l + "\n")
		}
		// a last statement, so that the facts after the final generated
		// statement are observed too
		sb.WriteString("\tthis.f1 = 0\n}\n\n")
		mech[fmt.Sprintf("m%d", m)] = "flow"
	}
	lastGenMech = mech
	return sb.String()
}

// ---- axiom programs ----

var axiomCache []string

var reAxiomLine = regexp.MustCompile("^- `\"(.*)\"`\\s*$")
var reAxiomVar = regexp.MustCompile(`\b[abc]0?\b`)
var reMinus = regexp.MustCompile(`\((\w+) - (\w+)\)`)

func loadAxioms(repo string) []string {
	if axiomCache != nil {
		return axiomCache
	}
	b, err := os.ReadFile(filepath.Join(repo, "lang", "check", "axioms.md"))
	if err != nil {
		panic(fmt.Sprintf("harness: cannot read axioms.md: %v", err))
	}
	for _, l := range strings.Split(string(b), "\n") {
		if m := reAxiomLine.FindStringSubmatch(l); m != nil {
			axiomCache = append(axiomCache, m[1])
		}
	}
	if len(axiomCache) == 0 {
		panic("harness: no axioms found in axioms.md")
	}
	return axiomCache
}

var cmpOps = []string{"<=", ">=", "==", "<", ">"}

// weaken returns a premise the axiom does not have: it must make the compiler
// reject the assert (or, if it happens to be stronger, still be sound).
func weaken(tp *sim.Tape, prem string) (string, string) {
	for _, op := range cmpOps {
		i := strings.Index(prem, " "+op+" ")
		if i < 0 {
			continue
		}
		l, r := prem[:i], prem[i+len(op)+2:]
		switch tp.Pick(3, 2, 1) {
		case 0: // relax the operator
			relaxed := map[string]string{"<": "<=", ">": ">=", "==": "<=", "<=": "<", ">=": ">"}[op]
			return l + " " + relaxed + " " + r, "relaxed_op"
		case 1: // swap operands
			return r + " " + op + " " + l, "swapped"
		default:
			return l + " <> " + r, "noteq"
		}
	}
	return prem, "unchanged"
}

func generateAxiomProgram(tp *sim.Tape, repo string) string {
	axioms := loadAxioms(repo)
	ax := axioms[tp.Draw(len(axioms))]
	parts := strings.SplitN(ax, ": ", 2)
	concl := parts[0]
	var prems []string
	if len(parts) == 2 {
		prems = strings.Split(parts[1], "; ")
	}
	// variables
	seen := map[string]bool{}
	var vars []string
	for _, m := range reAxiomVar.FindAllString(ax, -1) {
		if !seen[m] {
			seen[m] = true
			vars = append(vars, m)
		}
	}
	inConcl := map[string]bool{}
	for _, m := range reAxiomVar.FindAllString(concl, -1) {
		inConcl[m] = true
	}
	// Each variable is a local loaded from an argument under a small mask (so
	// that equalities and boundary cases are frequent and sums cannot
	// overflow), or - for one variable at most - a literal constant.
	subst := map[string]string{}
	constVar := ""
	if tp.Chance(1, 3) {
		constVar = vars[tp.Draw(len(vars))]
	}
	var sig, decl, init []string
	mask := []int{1, 3, 7, 255}[tp.Pick(2, 3, 2, 1)]
	for i, v := range vars {
		if v == constVar {
			subst[v] = fmt.Sprint(tp.Draw(mask + 1))
			continue
		}
		subst[v] = "v" + v
		sig = append(sig, fmt.Sprintf("x%d: base.u32", i))
		decl = append(decl, fmt.Sprintf("var v%s : base.u32", v))
		init = append(init, fmt.Sprintf("v%s = args.x%d & %d", v, i, mask))
	}
	sub := func(s string) string {
		return reAxiomVar.ReplaceAllStringFunc(s, func(m string) string { return subst[m] })
	}
	variant := "exact"
	usePrems := append([]string{}, prems...)
	if len(prems) > 0 && tp.Chance(2, 5) {
		i := tp.Draw(len(prems))
		if tp.Chance(1, 4) && len(prems) > 1 {
			usePrems = append(usePrems[:i], usePrems[i+1:]...)
			variant = "dropped_premise"
		} else {
			usePrems[i], variant = weaken(tp, prems[i])
		}
	}
	var guards []string
	// subtraction needs its own no-underflow guard
	for _, s := range append([]string{concl}, usePrems...) {
		for _, m := range reMinus.FindAllStringSubmatch(s, -1) {
			guards = append(guards, fmt.Sprintf("%s <= %s", sub(m[2]), sub(m[1])))
		}
	}
	for _, p := range usePrems {
		if strings.HasPrefix(p, "0 <= ") {
			continue // unsigned: provable from the type
		}
		guards = append(guards, sub(p))
	}
	var viaArgs []string
	for _, v := range vars {
		if !inConcl[v] {
			viaArgs = append(viaArgs, fmt.Sprintf("%s: %s", v, subst[v]))
		}
	}
	var sb strings.Builder
	sb.WriteString("pub struct foo?(\n\tf0 : base.u32,\n)\n\n")
	fmt.Fprintf(&sb, "pub func foo.m0!(%s) {\n", strings.Join(sig, ", "))
	for _, l := range append(decl, init...) {
		sb.WriteString("\t" + l + "\n")
	}
	tabs := "\t"
	for _, gd := range guards {
		fmt.Fprintf(&sb, "%sif %s {\n", tabs, gd)
		tabs += "\t"
	}
	fmt.Fprintf(&sb, "%sassert %s via \"%s\"(%s)\n", tabs, sub(concl), ax, strings.Join(viaArgs, ", "))
	fmt.Fprintf(&sb, "%sthis.f0 = 1\n", tabs)
	for range guards {
		tabs = tabs[:len(tabs)-1]
		fmt.Fprintf(&sb, "%s}\n", tabs)
	}
	sb.WriteString("}\n")
	lastGenMech = map[string]string{"m0": fmt.Sprintf("axiom %q/%s", ax, variant)}
	return sb.String()
}

// trueLoop emits a "while true" loop that is left only by break statements:
// directly, or (a deep break) from inside a nested loop. Such a loop is often
// the last statement of its block, which is where "does this block terminate"
// matters to the checker.
func (g *flowGen) trueLoop(depth int) []string {
	tp := g.tp
	v := g.v()
	g.labels++
	outer := fmt.Sprintf("l%d", g.labels)
	bound := 2 + tp.Draw(9)
	g.feats["while_true"] = true
	head := []string{fmt.Sprintf("while.%s true,", outer)}
	inv := ""
	if tp.Chance(1, 2) {
		g.feats["inv"] = true
		inv = fmt.Sprintf("%s <= %d", v, bound)
		head = append(head, "\t\tinv "+inv+",")
	}
	head = append(head, "{")
	save := g.vars
	var others []string
	for _, o := range g.vars {
		if o != v {
			others = append(others, o)
		}
	}
	g.vars = others
	var body []string
	exit := []string{fmt.Sprintf("if %s >= %d {", v, bound), "\tbreak." + outer, "}"}
	switch tp.Pick(2, 2, 3) {
	case 2: // the only exit is a break out of a nested "while true" loop, the
		// body's last statement: the body never falls through to the
		// implicit continue
		g.feats["deep_break_from_while_true"] = true
		body = append(body, g.block(depth+1, tp.Draw(2))...)
		if tp.Chance(1, 3) {
			// a near miss: would falsify the invariant if control continued
			body = append(body, fmt.Sprintf("%s = %d", v, bound+1+tp.Draw(3)))
		}
		if tp.Bool() {
			body = append(body, "while true {", "\tbreak."+outer, "}")
		} else {
			g.labels++
			inner := fmt.Sprintf("l%d", g.labels)
			body = append(body, fmt.Sprintf("while.%s true {", inner),
				fmt.Sprintf("\tif %s >= %d {", v, bound), "\t\tbreak."+outer, "\t}",
				fmt.Sprintf("\t%s ~mod+= 1", v), "}."+inner)
		}
		g.vars = save
		out := append(head, ind(body)...)
		out = append(out, "}."+outer)
		if inv != "" && tp.Chance(4, 5) {
			out = append(append([]string{"if " + inv + " {"}, ind(out)...), "}")
		}
		if tp.Chance(2, 3) {
			g.feats["loop_ends_branch"] = true
			pre := g.block(depth+1, tp.Draw(2))
			br := append(append([]string{fmt.Sprintf("if %s {", g.cond())}, ind(append(pre, out...))...), "}")
			if tp.Chance(1, 3) {
				br = append(br[:len(br)-1], "} else {")
				br = append(br, ind(g.block(depth+1, 1+tp.Draw(2)))...)
				br = append(br, "}")
			}
			return br
		}
		return out
	case 0: // direct break
		body = append(body, exit...)
		body = append(body, g.block(depth+1, tp.Draw(2))...)
	case 1: // the only exit is a break out of a nested loop
		g.feats["deep_break"] = true
		g.labels++
		inner := fmt.Sprintf("l%d", g.labels)
		w := v
		if len(others) > 0 && tp.Bool() {
			w = others[tp.Draw(len(others))]
		}
		ib := 1 + tp.Draw(5)
		in := []string{fmt.Sprintf("while.%s %s < %d,", inner, w, ib)}
		if inv != "" {
			in = append(in, "\t\tinv "+inv+",")
		}
		in = append(in, "{")
		var ibody []string
		ibody = append(ibody, fmt.Sprintf("if %s >= %d {", v, bound), "\tbreak."+outer, "}")
		if w != v {
			ibody = append(ibody, fmt.Sprintf("%s += 1", w))
		} else {
			ibody = append(ibody, fmt.Sprintf("%s += 1", v))
		}
		in = append(in, ind(ibody)...)
		in = append(in, "}."+inner)
		body = append(body, in...)
		if w != v || tp.Bool() {
			// without this the outer loop could spin forever (the step
			// budget would end the run: no verdict, just lost reach)
			body = append(body, fmt.Sprintf("if %s >= %d {", v, bound), "\tbreak."+outer, "}")
		}
	}
	g.vars = save
	if tp.Chance(1, 3) {
		// breaks the invariant unless the checker re-proves it: a near miss
		body = append(body, fmt.Sprintf("%s = %d", v, bound+1+tp.Draw(3)))
	} else {
		body = append(body, fmt.Sprintf("%s += 1", v))
	}
	out := append(head, ind(body)...)
	out = append(out, "}."+outer)
	if inv != "" && tp.Chance(4, 5) {
		out = append(append([]string{"if " + inv + " {"}, ind(out)...), "}")
	}
	// often the last statement of an if-branch
	if tp.Chance(1, 2) {
		g.feats["loop_ends_branch"] = true
		pre := g.block(depth+1, tp.Draw(2))
		br := append(append([]string{fmt.Sprintf("if %s {", g.cond())}, ind(append(pre, out...))...), "}")
		if tp.Bool() {
			br = append(br[:len(br)-1], "} else {")
			br = append(br, ind(g.block(depth+1, 1+tp.Draw(2)))...)
			br = append(br, "}")
		}
		return br
	}
	return out
}
