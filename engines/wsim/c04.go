package main

// C04: the C generated from an accepted program computes what the source means.
// One run = one program + one seeded history of public calls on a persistent
// receiver. The history is executed twice: by the reference interpreter, and by
// the C that the working tree's wuffs-c generates from the same source,
// compiled by clang (ASan+UBSan at -O0, or -O2, drawn per run) and driven by a
// main() that performs exactly the recorded calls. Compared: every return
// value, and afterwards the whole observable receiver state through generated
// getters (every scalar field, every array element).

import (
	"bytes"
	"context"
	"fmt"
	"math/big"
	"os"
	"os/exec"
	"path/filepath"
	"strings"
	"time"

	a "github.com/google/wuffs/lang/ast"
	t "github.com/google/wuffs/lang/token"

	"verif/sim"
)

type callRec struct {
	fn   *a.Func
	args []string // C argument expressions, in parameter order
	line string   // what the interpreter observed: "<name> <value>" or "<name> -"
	c    string   // C statements that print the corresponding line (empty: a plain call of fn)
}

func cType(in *interp, typ *a.TypeExpr) string {
	if typ.IsBool() {
		return "bool"
	}
	switch in.bitWidth(typ) {
	case 8:
		return "uint8_t"
	case 16:
		return "uint16_t"
	case 32:
		return "uint32_t"
	case 64:
		return "uint64_t"
	}
	return ""
}

func renderRet(name string, v *val) string {
	switch {
	case v == nil:
		return name + " -"
	case v.kind == kInt:
		return name + " " + v.i.String()
	case v.kind == kBool:
		if v.b {
			return name + " 1"
		}
		return name + " 0"
	}
	return name + " ?"
}

// getters returns source text of one pure public getter per scalar field and
// one per array field, so that the whole receiver state is observable.
func getterSource(p *program) (string, []string) {
	in := &interp{tm: p.tm}
	var sb strings.Builder
	var names []string
	for _, o := range p.strct.Fields() {
		f := o.AsField()
		name := f.Name().Str(p.tm)
		typ := f.XType()
		switch {
		case typ.Decorator() == 0 && (in.bitWidth(typ) != 0):
			fmt.Fprintf(&sb, "pub func foo.vget_%s() %s {\n\treturn this.%s\n}\n\n", name, typ.Unrefined().Str(p.tm), name)
			names = append(names, "vget_"+name)
		case typ.IsEitherArrayType() && typ.Inner().Decorator() == 0 && in.bitWidth(typ.Inner()) != 0:
			n := typ.ArrayLength().ConstValue()
			if n == nil || !n.IsInt64() || n.Int64() > 256 {
				continue
			}
			fmt.Fprintf(&sb, "pub func foo.vget_%s(i: base.u32) %s {\n\tif args.i < %d {\n\t\treturn this.%s[args.i]\n\t}\n\treturn 0\n}\n\n",
				name, typ.Inner().Unrefined().Str(p.tm), n.Int64(), name)
			names = append(names, fmt.Sprintf("vget_%s/%d", name, n.Int64()))
		}
	}
	return sb.String(), names
}

func harnessDie(format string, args ...interface{}) {
	fmt.Fprintf(os.Stderr, "wsim/C04: harness trouble (no verdict): "+format+"\n", args...)
	os.Exit(2)
}

func runC04(tp *sim.Tape, opt sim.RunOpt) *sim.Outcome {
	o := &sim.Outcome{}
	wuffsC, baseC, scratch := opt.Extra["wuffs_c"], opt.Extra["base_c"], opt.Extra["scratch"]
	if wuffsC == "" || baseC == "" || scratch == "" {
		harnessDie("missing wuffs_c / base_c / scratch in -extra")
	}
	var src, name string
	var mech map[string]string
	switch opt.Mode {
	case "corpus":
		c := corpus[tp.Draw(len(corpus))]
		src, name = c.src, "corpus:"+c.name
	case "flow":
		src = generateFlowProgram(tp)
		name, mech = "generated-flow", lastGenMech
	case "generated":
		src = generate(tp)
		name, mech = "generated", lastGenMech
	case "slice":
		src = generateSliceProgram(tp)
		name, mech = "generated-slice", lastGenMech
	case "coro":
		src = generateCoroProgram(tp)
		name, mech = "generated-coro", lastGenMech
	default:
		src = generateExprProgram(tp)
		name, mech = "generated-expr", lastGenMech
	}
	_ = mech
	optimised := tp.Chance(1, 3)
	fp := sim.NewFP()
	fp.AddStr(src)
	p0, err := load(src)
	if err != nil {
		o.Probe("rejected_by_compiler")
		o.Probe("rejected_by_compiler mode=" + opt.Mode)
		o.FP = fp.Sum()
		return o
	}
	o.Probe("accepted_by_compiler mode=" + opt.Mode)
	if p0.strct == nil {
		o.Probe("skipped: no struct")
		return o
	}
	gsrc, getters := getterSource(p0)
	full := src + "\n" + gsrc
	p, err := load(full)
	if err != nil {
		harnessDie("the getters appended to an accepted program were rejected: %v\n%s", err, full)
	}
	// ---- the interpreter's side ----
	// Several independent histories per program: the compile dominates a run's
	// cost, executing a history takes milliseconds. Every history starts from a
	// freshly initialised receiver and (coroutines) its own source stream,
	// destination capacity and delivery policy.
	var recs []callRec
	var giveUp string
	var coroCalls []string
	var streams [][]byte
	var dstCaps []int
	totalSteps := 0
	nh := 2 + tp.Draw(3)
	oneHistory := func(h int) (hrecs []callRec, why string, calls []string, steps int) {
		in := &interp{tm: p.tm, funcs: p.funcs, strct: p.strct, this: map[t.ID]*val{}, maxStep: 200000}
		// the C side starts every history by re-initialising the object
		reset := fmt.Sprintf("  if (wuffs_zfoo__foo__initialize(f, sizeof__wuffs_zfoo__foo(), WUFFS_VERSION, 0).repr) return 4;\n  printf(\"== history %d\\n\");\n", h)
		if opt.Mode == "coro" {
			// The simulated caller of coro.go runs the history and records its
			// actions; the C driver repeats them.
			res := driveHistory(p, tp, nil)
			in = res.interp
			calls = res.calls
			streams, dstCaps = append(streams, res.stream), append(dstCaps, res.dstCap)
			o.ProbeN("suspensions", int64(res.suspensions))
			if res.suspensions > 0 {
				o.Probe("histories_with_a_suspension")
			}
			switch {
			case res.viol != nil:
				why = "c01_class_violation: " + res.viol.class
			case res.unsupported != "":
				why = "unsupported: " + firstWords(res.unsupported, 3)
			}
			reset += fmt.Sprintf("  src = wuffs_base__ptr_u8__writer(srcdata, 64); dst = wuffs_base__ptr_u8__writer(dstdata, %d);\n", res.dstCap)
			hrecs = append(hrecs, callRec{line: fmt.Sprintf("== history %d", h), c: reset})
			off := 0
			for _, st := range res.steps2 {
				switch st.kind {
				case "plain":
					hrecs = append(hrecs, callRec{fn: st.fn, args: st.cargs, line: st.expect})
				case "drain":
					hrecs = append(hrecs, callRec{line: st.expect,
						c: "  printf(\"dst \"); for (size_t i = 0; i < dst.meta.wi; i++) { printf(\"%02x\", dstdata[i]); } printf(\"\\n\"); dst.meta.pos += dst.meta.wi; dst.meta.wi = 0;\n"})
				case "enter":
					var cb strings.Builder
					if n := len(st.appendSrc); n > 0 {
						fmt.Fprintf(&cb, "  memcpy(srcdata + src.meta.wi, stream%d + %d, %d); src.meta.wi += %d;\n", h, off, n, n)
						off += n
					}
					if st.closeSrc {
						cb.WriteString("  src.meta.closed = true;\n")
					}
					fname := st.fn.FuncName().Str(p.tm)
					fmt.Fprintf(&cb, "  st = wuffs_zfoo__foo__%s(%s);\n", fname, strings.Join(append([]string{"f"}, st.cargs...), ", "))
					fmt.Fprintf(&cb, "  printf(\"%s? %%s ri=%%zu wi=%%zu\\n\", st.repr ? st.repr : \"ok\", src.meta.ri, dst.meta.wi);\n", fname)
					hrecs = append(hrecs, callRec{fn: st.fn, args: st.cargs, line: st.expect, c: cb.String()})
				}
			}
		} else {
			hrecs = append(hrecs, callRec{line: fmt.Sprintf("== history %d", h), c: reset})
		}
		func() {
			defer func() {
				if r := recover(); r != nil {
					switch x := r.(type) {
					case *violation:
						why = "c01_class_violation: " + x.class
					case unsupported:
						why = "unsupported: " + firstWords(x.what, 3)
					default:
						panic(r)
					}
				}
			}()
			if opt.Mode != "coro" {
				for _, fo := range p.strct.Fields() {
					f := fo.AsField()
					in.this[f.Name()] = in.zero(f.XType())
				}
			}
			if why != "" {
				return
			}
			callable := p0.pubs
			ncalls := 1 + tp.Draw(6)
			if opt.Mode == "coro" {
				ncalls = 0
			}
			for i := 0; i < ncalls; i++ {
				fn := p.funcs[callable[tp.Draw(len(callable))].FuncName()]
				argv := map[t.ID]*val{}
				var cargs []string
				for _, q := range fn.In().Fields() {
					fld := q.AsField()
					lo, hi, ok := in.typeRange(fld.XType())
					switch {
					case ok:
						v := drawInt(tp, lo, hi)
						argv[fld.Name()] = bigVal(v)
						cargs = append(cargs, fmt.Sprintf("(%s)%sULL", cType(in, fld.XType()), v.String()))
					case fld.XType().IsBool():
						b := tp.Bool()
						argv[fld.Name()] = boolVal(b)
						cargs = append(cargs, map[bool]string{true: "true", false: "false"}[b])
					default:
						unsup("parameter type %s", fld.XType().Str(p.tm))
					}
				}
				if fn.Out() != nil && cType(in, fn.Out()) == "" {
					unsup("result type %s", fn.Out().Str(p.tm))
				}
				ret := in.call(fn, argv, false)
				hrecs = append(hrecs, callRec{fn: fn, args: cargs, line: renderRet(fn.FuncName().Str(p.tm), ret)})
				calls = append(calls, fmt.Sprintf("%s(%s) -> %s", fn.FuncName().Str(p.tm), strings.Join(cargs, ", "), strings.TrimPrefix(renderRet("", ret), " ")))
			}
			// dump the receiver through the getters
			for _, g := range getters {
				gname, n := g, 0
				if i := strings.IndexByte(g, '/'); i >= 0 {
					gname = g[:i]
					fmt.Sscan(g[i+1:], &n)
				}
				id := p.tm.ByName(gname)
				fn := p.funcs[id]
				if fn == nil {
					harnessDie("getter %s not found", gname)
				}
				if n == 0 {
					ret := in.call(fn, map[t.ID]*val{}, false)
					hrecs = append(hrecs, callRec{fn: fn, line: renderRet(gname, ret)})
					continue
				}
				for k := 0; k < n; k++ {
					argName := fn.In().Fields()[0].AsField().Name()
					ret := in.call(fn, map[t.ID]*val{argName: bigVal(big.NewInt(int64(k)))}, false)
					hrecs = append(hrecs, callRec{fn: fn, args: []string{fmt.Sprintf("(uint32_t)%dULL", k)}, line: renderRet(fmt.Sprintf("%s[%d]", gname, k), ret)})
				}
			}
		}()
		return hrecs, why, calls, in.steps
	}
	for h := 0; h < nh; h++ {
		hrecs, why, calls, steps := oneHistory(h)
		totalSteps += steps
		if why != "" {
			// C01's subject, or outside the interpreter's subset: this history
			// gives no comparison; earlier complete ones still do.
			o.Probe("history_without_comparison: " + why)
			if opt.Mode == "coro" {
				streams, dstCaps = streams[:len(streams)-1], dstCaps[:len(dstCaps)-1]
			}
			if len(recs) == 0 {
				giveUp = why
			}
			break
		}
		recs = append(recs, hrecs...)
		coroCalls = append(coroCalls, fmt.Sprintf("[history %d]", h))
		coroCalls = append(coroCalls, calls...)
		o.Probe("histories_compared")
	}
	for _, r := range recs {
		fp.AddStr(r.line)
	}
	o.FP = fp.Sum()
	o.Steps = int64(totalSteps)
	if len(recs) == 0 {
		if giveUp == "" {
			giveUp = "no complete history"
		}
		// C01's subject (or outside the interpreter's subset): no comparison.
		o.Probe("no_comparison: " + giveUp)
		return o
	}
	// ---- the generated C's side ----
	dir, err := os.MkdirTemp(scratch, "c04-")
	if err != nil {
		harnessDie("mkdir: %v", err)
	}
	defer os.RemoveAll(dir)
	if err := os.WriteFile(filepath.Join(dir, "foo.wuffs"), []byte(full), 0o644); err != nil {
		harnessDie("%v", err)
	}
	ctx, cancel := context.WithTimeout(context.Background(), 120*time.Second)
	defer cancel()
	gen := exec.CommandContext(ctx, wuffsC, "gen", "-package_name", "zfoo", filepath.Join(dir, "foo.wuffs"))
	var genOut, genErr bytes.Buffer
	gen.Stdout, gen.Stderr = &genOut, &genErr
	if err := gen.Run(); err != nil {
		// The transpiler declined a program the checker accepted: nothing was
		// computed, so nothing can differ. Counted, not a verdict.
		o.Probe("no_comparison: wuffs-c failed: " + firstWords(genErr.String(), 6))
		return o
	}
	if err := os.WriteFile(filepath.Join(dir, "wuffs-std-zfoo.c"), genOut.Bytes(), 0o644); err != nil {
		harnessDie("%v", err)
	}
	if err := os.Symlink(baseC, filepath.Join(dir, "wuffs-base.c")); err != nil {
		harnessDie("%v", err)
	}
	var mc strings.Builder
	mc.WriteString("#define WUFFS_IMPLEMENTATION\n#define WUFFS_CONFIG__MODULES\n#define WUFFS_CONFIG__MODULE__BASE__CORE\n#define WUFFS_CONFIG__MODULE__ZFOO\n")
	mc.WriteString("#include \"./wuffs-std-zfoo.c\"\n#include <stdio.h>\n#include <stdlib.h>\n#include <string.h>\n")
	if opt.Mode == "coro" {
		// the caller-owned I/O buffers and one source stream per history
		maxCap := 1
		for _, c := range dstCaps {
			if c > maxCap {
				maxCap = c
			}
		}
		mc.WriteString("static uint8_t srcdata[64];\n")
		fmt.Fprintf(&mc, "static uint8_t dstdata[%d];\n", maxCap)
		for h, stream := range streams {
			fmt.Fprintf(&mc, "static const uint8_t stream%d[64] = {", h)
			for _, c := range stream {
				fmt.Fprintf(&mc, "%d,", c)
			}
			mc.WriteString("0};\n")
		}
	}
	mc.WriteString("int main(void) {\n  wuffs_zfoo__foo* f = (wuffs_zfoo__foo*)malloc(sizeof__wuffs_zfoo__foo());\n  if (!f) return 3;\n")
	if opt.Mode == "coro" {
		mc.WriteString("  wuffs_base__io_buffer src = wuffs_base__ptr_u8__writer(srcdata, 64);\n")
		mc.WriteString("  wuffs_base__io_buffer dst = wuffs_base__ptr_u8__writer(dstdata, 1);\n")
		mc.WriteString("  wuffs_base__status st = wuffs_base__make_status(NULL);\n  (void)st; (void)src; (void)dst;\n")
	}
	for _, r := range recs {
		if r.c != "" {
			mc.WriteString(r.c)
			continue
		}
		cname := "wuffs_zfoo__foo__" + r.fn.FuncName().Str(p.tm)
		call := fmt.Sprintf("%s(%s)", cname, strings.Join(append([]string{"f"}, r.args...), ", "))
		label := r.line[:strings.LastIndexByte(r.line, ' ')]
		if r.fn.Out() == nil {
			fmt.Fprintf(&mc, "  %s;\n  printf(\"%s -\\n\");\n", call, label)
		} else {
			fmt.Fprintf(&mc, "  printf(\"%s %%llu\\n\", (unsigned long long)%s);\n", label, call)
		}
	}
	mc.WriteString("  free(f);\n  return 0;\n}\n")
	if err := os.WriteFile(filepath.Join(dir, "main.c"), []byte(mc.String()), 0o644); err != nil {
		harnessDie("%v", err)
	}
	flags := []string{"-O0", "-g", "-fsanitize=address,undefined", "-fno-sanitize-recover=undefined", "-fno-sanitize=pointer-overflow"}
	variant := "O0+asan+ubsan"
	if optimised {
		flags, variant = []string{"-O2"}, "O2"
	}
	o.Probe("c_build " + variant)
	cc := exec.CommandContext(ctx, "clang-14", append(flags, "-o", filepath.Join(dir, "a.out"), filepath.Join(dir, "main.c"))...)
	if out, err := cc.CombinedOutput(); err != nil {
		if ctx.Err() != nil {
			harnessDie("clang timed out")
		}
		// Invalid C for an accepted program: there is no C behaviour to compare
		// (whether emitted C compiles is not what C04 states). Counted.
		// Invalid C. An error inside main.c is this harness's fault; an error
		// inside the generated package means the working tree's wuffs-c turned
		// an accepted program into something that is not C, so that "the
		// transpiled C returns the same values" cannot hold for it.
		first := firstErrorLocated(string(out))
		if !strings.Contains(first, "wuffs-std-zfoo.c") {
			harnessDie("clang rejected the harness's main.c:\n%s\nmain.c:\n%s", out, mc.String())
		}
		o.Nontrivial = true
		o.Fail("generated_c_invalid", "generated_c_invalid:"+errorShape(first),
			"the checker accepted this program but the C that wuffs-c generates from it is rejected by clang-14: %s; program (%s):\n%s",
			strings.TrimSpace(excerpt(string(out), 600)), name, src)
		return o
	}
	run := exec.CommandContext(ctx, filepath.Join(dir, "a.out"))
	run.Env = append(os.Environ(), "ASAN_OPTIONS=detect_leaks=0:abort_on_error=0", "UBSAN_OPTIONS=print_stacktrace=0")
	var so, se bytes.Buffer
	run.Stdout, run.Stderr = &so, &se
	rerr := run.Run()
	if ctx.Err() != nil {
		harnessDie("the generated program did not finish in time (the interpreter did, in %d steps)", totalSteps)
	}
	var want []string
	for _, r := range recs {
		want = append(want, r.line)
	}
	got := strings.Split(strings.TrimRight(so.String(), "\n"), "\n")
	o.Nontrivial = len(recs) > 0
	o.ProbeN("calls_compared", int64(len(recs)))
	calls := coroCalls
	o.Sample = map[string]interface{}{"program": name, "source": src, "calls": calls, "c_build": variant}
	if opt.Verbose {
		for _, l := range strings.Split(src, "\n") {
			o.Tracef("    %s", l)
		}
		for i := range want {
			g := "<missing>"
			if i < len(got) {
				g = got[i]
			}
			o.Tracef("source: %-40s C: %s", want[i], g)
		}
	}
	if strings.Contains(se.String(), "runtime error:") || strings.Contains(se.String(), "AddressSanitizer") {
		o.Fail("c_undefined_behaviour", "c_undefined_behaviour:"+opt.Mode,
			"the interpreter executed this accepted program safely, but the C generated from it (%s) reports: %s; history: %s; program (%s):\n%s",
			variant, firstWords(firstSanLine(se.String()), 30), strings.Join(calls, "; "), name, src)
		return o
	}
	if rerr != nil {
		harnessDie("the generated program exited abnormally without a sanitizer report: %v\nstderr: %s\nmain.c:\n%s", rerr, se.String(), mc.String())
	}
	for i := range want {
		g := "<missing>"
		if i < len(got) {
			g = got[i]
		}
		if g != want[i] {
			o.Fail("c_differs_from_source", "c_differs_from_source:"+opt.Mode,
				"the generated C (%s) and the Wuffs source disagree: source semantics give %q, the C gives %q (observation %d of %d); history: %s; program (%s):\n%s",
				variant, want[i], g, i+1, len(want), strings.Join(calls, "; "), name, src)
			return o
		}
	}
	o.Probe("c_agrees_with_source")
	return o
}

// firstErrorLocated returns the first "file:line:col: error: ..." line.
func firstErrorLocated(s string) string {
	for _, l := range strings.Split(s, "\n") {
		if strings.Contains(l, ": error:") {
			return l
		}
	}
	return ""
}

// errorShape abstracts a clang error line into a stable key: the message
// without locations, numbers and quoted names.
func errorShape(l string) string {
	if i := strings.Index(l, "error:"); i >= 0 {
		l = l[i+len("error:"):]
	}
	var sb strings.Builder
	inQuote := false
	for _, r := range l {
		switch {
		case r == '\'':
			inQuote = !inQuote
			if inQuote {
				sb.WriteString("'_'")
			}
		case inQuote:
		case r >= '0' && r <= '9':
			sb.WriteByte('N')
		default:
			sb.WriteRune(r)
		}
	}
	return strings.Join(strings.Fields(sb.String()), "_")
}

func excerpt(s string, n int) string {
	if len(s) > n {
		return s[:n] + "..."
	}
	return s
}

func firstErrorLine(s string) string {
	for _, l := range strings.Split(s, "\n") {
		if i := strings.Index(l, "error:"); i >= 0 {
			return l[i:]
		}
	}
	return firstWords(s, 8)
}

func firstSanLine(s string) string {
	for _, l := range strings.Split(s, "\n") {
		if strings.Contains(l, "runtime error:") || strings.Contains(l, "AddressSanitizer") {
			if i := strings.Index(l, "runtime error:"); i >= 0 {
				return l[i:]
			}
			return l
		}
	}
	return s
}
