package main

// generateCoroProgram: coroutines with I/O. Each program has one public
// coroutine (and a private one it may call), a mutator and getters. Bodies mix
// reads (suspension points), writes, explicit yields, loops and error returns
// with guards on locals, on args, on this fields and on args.src.length(),
// where the suspension point is - or is not - placed between the guard and the
// use: facts about locals survive a suspension, facts about args, this and the
// I/O buffers do not.

import (
	"fmt"
	"strings"

	"verif/sim"
)

type coroGen struct {
	tp        *sim.Tape
	labels    int
	inner     bool
	depth     int
	usesSlice bool
}

func (g *coroGen) read(dst string) string {
	tp := g.tp
	m := []string{"read_u8_as_u32", "read_u16le_as_u32", "read_u16be_as_u32", "read_u24le_as_u32", "read_u24be_as_u32", "read_u32le", "read_u32be"}[tp.Pick(6, 2, 1, 1, 1, 2, 1)]
	return fmt.Sprintf("%s = args.src.%s?()", dst, m)
}

// wideRead reads into the u8 / u16 / u64 locals: every width and endianness of
// the multi-byte read methods, whose slow path (bytes arriving in pieces) is
// separate generated code per method.
func (g *coroGen) wideRead() []string {
	tp := g.tp
	switch tp.Pick(2, 2, 6) {
	case 0:
		return []string{"b8 = args.src.read_u8?()", "this.acc ~mod+= b8 as base.u32"}
	case 1:
		m := []string{"read_u16le", "read_u16be", "read_u8_as_u16"}[tp.Draw(3)]
		return []string{fmt.Sprintf("h16 = args.src.%s?()", m), "this.acc ~mod+= h16 as base.u32"}
	}
	m := []string{"read_u8_as_u64", "read_u16le_as_u64", "read_u16be_as_u64", "read_u24le_as_u64", "read_u24be_as_u64",
		"read_u32le_as_u64", "read_u32be_as_u64", "read_u40le_as_u64", "read_u40be_as_u64", "read_u48le_as_u64", "read_u48be_as_u64",
		"read_u56le_as_u64", "read_u56be_as_u64", "read_u64le", "read_u64be"}[tp.Draw(15)]
	return []string{fmt.Sprintf("z64 = args.src.%s?()", m),
		"this.acc ~mod+= ((z64 & 0xFFFFFFFF) as base.u32) ~mod+ ((z64 >> 32) as base.u32)"}
}

func (g *coroGen) suspender() []string {
	tp := g.tp
	switch tp.Pick(6, 2, 2, 1, 2, 3, 2, 4) {
	case 7:
		return g.wideRead()
	case 5: // the suspension point is inside a compound assignment: the old
		// value of the left-hand side is needed after the resumption
		v := []string{"x", "c", "i"}[tp.Pick(3, 2, 1)]
		op := []string{"~mod+=", "~mod-=", "|=", "^=", "&=", "~sat+="}[tp.Draw(6)]
		return []string{fmt.Sprintf("%s %s args.src.read_u8_as_u32?()", v, op)}
	case 6: // ... or inside a store to an element selected by a local
		return []string{fmt.Sprintf("this.arr[%s & 7] = args.src.read_u8?()", []string{"i", "x", "c"}[tp.Draw(3)])}
	case 0:
		return []string{g.read([]string{"c", "x"}[tp.Draw(2)])}
	case 1:
		return []string{"args.dst.write_u8?(a: (c & 0xFF) as base.u8)"}
	case 2:
		return []string{fmt.Sprintf("args.src.skip_u32?(n: %s)", []string{"1", "(c & 3)", "2"}[tp.Draw(3)])}
	case 3:
		return []string{`yield? base."$short read"`}
	}
	if g.inner {
		return []string{fmt.Sprintf("this.inner?(src: args.src, k: %s)", []string{"i", "args.n", "c & 7", "this.f1"}[tp.Draw(4)])}
	}
	return []string{g.read("c")}
}

func (g *coroGen) stmt() []string {
	tp := g.tp
	g.depth++
	defer func() { g.depth-- }()
	kind := tp.Pick(5, 3, 6, 3, 2, 2, 2, 2, 3)
	if g.depth > 3 && (kind == 2 || kind == 3) {
		kind = 1
	}
	switch kind {
	case 8:
		// a local written before a suspension point and read afterwards ONLY
		// on a path that ends in an error return (liveness across suspension)
		set := []string{"e = c", "e = x & 255", "e = args.n & 7", "e = this.f0 ~mod+ 1", "e = i ~mod+ 3"}[tp.Draw(5)]
		op := []string{">", "==", "<", "<>"}[tp.Pick(3, 2, 2, 1)]
		k := []int{0, 1, 2, 3, 5, 100}[tp.Draw(6)]
		st := []string{"#bad input", "#too big"}[tp.Draw(2)]
		out := append([]string{set}, g.suspender()...)
		out = append(out, fmt.Sprintf("if e %s %d {", op, k))
		if tp.Chance(2, 3) {
			out = append(out, "\tthis.f1 = e")
		}
		return append(out, fmt.Sprintf("\treturn \"%s\"", st), "}")
	case 0:
		return g.suspender()
	case 1: // arithmetic on locals and fields
		return [][]string{
			{"x = (x ~mod* 31) ~mod+ c"},
			{"this.acc ~mod+= x"},
			{"this.f1 = c"},
			{"i = c & 7"},
			{"x = this.f0 ~mod+ args.n"},
			{"this.f0 = x & 15"},
			{"e = c"},
			{"e = x & 255"},
		}[tp.Draw(8)]
	case 2: // guard, optional suspension point, use
		var guard, use string
		what := tp.Pick(4, 3, 3, 2, 3)
		switch what {
		case 4: // a local slice: it does not survive a suspension
			g.usesSlice = true
			pre := []string{"sl = this.arr[..]", fmt.Sprintf("sl = this.arr[%d .. 8]", tp.Draw(5)), "sl = this.arr[.. 6]"}[tp.Draw(3)]
			k := tp.Draw(4)
			out := []string{pre, fmt.Sprintf("if sl.length() > %d {", k)}
			switch tp.Pick(3, 4, 1) {
			case 1:
				out = append(out, ind(g.suspender())...)
			case 2:
				out = append(out, "\tx = x ~mod+ 1")
			}
			out = append(out, fmt.Sprintf("\tx = x ~mod+ (sl[%d] as base.u32)", k), "}")
			if tp.Bool() {
				out = append(out, "this.acc ~mod+= (sl.length() & 0xFF) as base.u32")
			}
			return out
		case 0:
			guard, use = fmt.Sprintf("i < %d", []int{8, 8, 4, 9}[tp.Pick(3, 3, 1, 1)]), "this.arr[i] = (c & 0xFF) as base.u8"
		case 1:
			guard, use = "args.n < 8", "this.arr[args.n] = 1"
		case 2:
			guard, use = "this.f0 < 8", "this.arr[this.f0] = 2"
		default:
			guard, use = "args.src.length() >= 4", "x = args.src.peek_u32le()"
		}
		out := []string{fmt.Sprintf("if %s {", guard)}
		switch tp.Pick(3, 4, 1) {
		case 1:
			out = append(out, ind(g.suspender())...)
		case 2: // a non-suspending statement that touches nothing relevant
			out = append(out, "\tx = x ~mod+ 1")
		}
		out = append(out, "\t"+use)
		if what == 3 && tp.Bool() {
			out = append(out, "\targs.src.skip_u32_fast!(actual: 4, worst_case: 4)")
		}
		return append(out, "}")
	case 3: // loop with a suspension point inside
		g.labels++
		lbl := fmt.Sprintf("l%d", g.labels)
		var out []string
		if tp.Chance(2, 3) {
			out = append(out, "i = 0", fmt.Sprintf("while.%s i < %d {", lbl, 1+tp.Draw(6)))
			body := g.suspender()
			if tp.Bool() {
				body = append(body, g.stmt()...)
			}
			if tp.Chance(1, 3) {
				body = append(body, "if c == 0 {", "\tbreak."+lbl, "}")
			}
			body = append(body, "i += 1")
			out = append(out, ind(body)...)
		} else {
			out = append(out, fmt.Sprintf("while.%s true {", lbl))
			body := []string{g.read("c"), "if c == 0 {", "\tbreak." + lbl, "}"}
			if tp.Bool() {
				body = append(body, g.stmt()...)
			}
			out = append(out, ind(body)...)
		}
		return append(out, "}."+lbl)
	case 4: // an error return that depends on a local, possibly one that was
		// last written before the previous suspension
		// (e is a local that is read nowhere else than on error paths)
		v := []string{"c", "x", "i", "(x & 7)", "(c & 3)", "e"}[tp.Pick(3, 3, 2, 2, 1, 5)]
		op := []string{"==", ">", "<", "<>"}[tp.Pick(3, 2, 2, 1)]
		k := []int{255, 0, 1, 3, 5, 100}[tp.Draw(6)]
		st := []string{"#bad input", "#too big"}[tp.Draw(2)]
		out := []string{fmt.Sprintf("if %s %s %d {", v, op, k)}
		if tp.Chance(1, 2) {
			out = append(out, fmt.Sprintf("\tthis.f1 = %s", []string{"x", "c", "i", "e", "e"}[tp.Draw(5)]))
		}
		return append(out, fmt.Sprintf("\treturn \"%s\"", st), "}")
	case 5:
		return []string{"if (c & 1) == 0 {", "\tthis.acc ~mod+= 1", "}"}
	case 6:
		return []string{fmt.Sprintf("if (c & 255) > %d {", tp.Draw(200)), "\tx = x >> 1", "} else {", "\tthis.acc ~mod+= x", "}"}
	}
	return []string{"args.dst.write_u8?(a: (x & 0xFF) as base.u8)"}
}

func generateCoroProgram(tp *sim.Tape) string {
	g := &coroGen{tp: tp, inner: tp.Chance(2, 3)}
	var sb strings.Builder
	sb.WriteString("pub status \"#bad input\"\npub status \"#too big\"\n\n")
	sb.WriteString("pub struct foo?(\n\tf0 : base.u32,\n\tf1 : base.u32,\n\tacc : base.u32,\n\tarr : array[8] base.u8,\n)\n\n")
	sb.WriteString("pub func foo.set_f0!(v: base.u32) {\n\tthis.f0 = args.v\n}\n\n")
	sb.WriteString("pub func foo.get_acc() base.u32 {\n\treturn this.acc\n}\n\n")
	mech := map[string]string{"set_f0": "helper", "get_acc": "helper"}
	if g.inner {
		sb.WriteString("pri func foo.inner?(src: base.io_reader, k: base.u32) {\n\tvar c : base.u32\n")
		sb.WriteString("\tc = args.src.read_u8_as_u32?()\n\tthis.acc ~mod+= c ~mod+ args.k\n")
		if tp.Bool() {
			sb.WriteString("\tif c == 254 {\n\t\treturn \"#bad input\"\n\t}\n")
		}
		if tp.Bool() {
			sb.WriteString("\tc = args.src.read_u8_as_u32?()\n\tthis.f1 = c ~mod+ args.k\n")
		}
		sb.WriteString("}\n\n")
		mech["inner"] = "coro"
	}
	sb.WriteString("pub func foo.run?(dst: base.io_writer, src: base.io_reader, n: base.u32) {\n")
	sb.WriteString("\tvar c : base.u32\n\tvar i : base.u32\n\tvar x : base.u32\n\tvar e : base.u32\n")
	sb.WriteString("\tvar b8 : base.u8\n\tvar h16 : base.u16\n\tvar z64 : base.u64\n\tvar sl : slice base.u8\n")
	fmt.Fprintf(&sb, "\te = %s\n", []string{"args.n", "args.n & 7", "this.f0 ~mod+ 1", "5", "args.n ~mod+ 1"}[tp.Draw(5)])
	if tp.Chance(2, 3) {
		// locals that hold something before the first suspension point
		fmt.Fprintf(&sb, "\tx = %s\n", []string{"args.n", "this.f0 ~mod+ 1", "args.n ~mod* 3", "7"}[tp.Draw(4)])
		if tp.Bool() {
			fmt.Fprintf(&sb, "\ti = %s\n", []string{"args.n & 7", "3", "this.f1 & 7"}[tp.Draw(3)])
		}
	}
	if tp.Chance(1, 3) {
		// a "read soup": many different read methods in one program, each
		// folded into observable state, so that every method's slow path
		// (bytes arriving in pieces) is exercised often
		n := 4 + tp.Draw(7)
		var body []string
		for k := 0; k < n; k++ {
			if tp.Chance(3, 4) {
				body = append(body, g.wideRead()...)
			} else {
				body = append(body, g.read("c"), "this.acc ~mod+= c")
			}
			if tp.Chance(1, 5) {
				body = append(body, "args.dst.write_u8?(a: (this.acc & 0xFF) as base.u8)")
			}
		}
		if tp.Chance(1, 3) {
			body = append(append([]string{"i = 0", fmt.Sprintf("while i < %d {", 1+tp.Draw(3))}, ind(append(body, "i += 1"))...), "}")
		}
		for _, l := range body {
			sb.WriteString("\t" + l + "\n")
		}
	} else {
		n := 2 + tp.Draw(6)
		for k := 0; k < n; k++ {
			for _, l := range g.stmt() {
				sb.WriteString("\t" + l + "\n")
			}
		}
	}
	sb.WriteString("\tthis.f1 = 0\n}\n")
	mech["run"] = "coro"
	lastGenMech = mech
	return sb.String()
}
