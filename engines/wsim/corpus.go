package main

// A small hand-written corpus, one program per mechanism. "safe_*" programs
// must be accepted and execute without a monitor hit (they guard the
// interpreter against false alarms); "hole_*" programs are acceptance holes of
// the kind the property text lists.

type corpusProgram struct {
	name string
	src  string
}

var corpus = []corpusProgram{
	{"safe_index_by_refined_arg", `
pub struct foo?(
	buf : array[8] base.u8,
	n   : base.u32,
)

pub func foo.get(i: base.u32[..= 7]) base.u8 {
	return this.buf[args.i]
}

pub func foo.put!(i: base.u32[..= 7], v: base.u8) {
	this.buf[args.i] = args.v
	this.n ~mod+= 1
}
`},
	{"safe_loop_fill", `
pub struct foo?(
	buf : array[16] base.u8,
)

pub func foo.fill!(v: base.u8) base.u32 {
	var i : base.u32
	i = 0
	while i < 16 {
		this.buf[i] = args.v
		i += 1
	}
	return i
}
`},
	{"safe_if_guard_and_modular", `
pub struct foo?(
	tab : array[4] base.u16,
	acc : base.u32,
)

pub func foo.step!(x: base.u32, y: base.u16) base.u32 {
	var j : base.u32
	j = args.x & 3
	this.tab[j] = args.y
	this.acc = this.acc ~mod+ (args.x ~mod* 3)
	if args.x < 100 {
		return args.x + 1
	}
	return this.acc >> 1
}
`},
	{"safe_saturating_and_as", `
pub struct foo?(
	c : base.u8,
)

pub func foo.bump!(d: base.u8) base.u16 {
	var w : base.u16
	this.c ~sat+= args.d
	w = (this.c as base.u16) * 2
	return w
}
`},
	{"hole_stale_pure_call_fact", `
pub struct foo?(
	x   : base.u32,
	buf : array[8] base.u8,
)

pub func foo.get() base.u32 {
	return this.x
}

pub func foo.bad!() base.u8 {
	if this.get() < 8 {
		this.x = 100
		return this.buf[this.get()]
	}
	return 0
}
`},
	{"hole_refined_local_array_zero_init", `
pub struct foo?(
	buf : array[8] base.u8,
)

pub func foo.bad() base.u8 {
	var a : array[4] base.u32[2 ..= 7]
	return this.buf[a[0] - 2]
}
`},
	{"hole_index_alias_store", `
pub struct foo?(
	buf : array[8] base.u8,
)

pub func foo.bad!(i: base.u32, v: base.u8) base.u8 {
	if this.buf[0] < 8 {
		this.buf[args.i & 7] = args.v
		return this.buf[this.buf[0]]
	}
	return 0
}
`},
	{"hole_slice_alias_store", `
pub struct foo?(
	buf : array[8] base.u8,
)

pub func foo.bad!(v: base.u8) base.u8 {
	var s : slice base.u8
	s = this.buf[0 .. 8]
	if this.buf[0] < 8 {
		s[0] = args.v
		return this.buf[this.buf[0]]
	}
	return 0
}
`},
	{"hole_slice_alias_store_reverse", `
pub struct foo?(
	buf : array[8] base.u8,
)

pub func foo.bad!(v: base.u8) base.u8 {
	var s : slice base.u8
	s = this.buf[0 .. 8]
	if s[0] < 8 {
		this.buf[0] = args.v
		return this.buf[s[0]]
	}
	return 0
}
`},
	{"safe_distinct_arrays_keep_facts", `
pub struct foo?(
	a : array[8] base.u8,
	b : array[8] base.u8,
)

pub func foo.good!(i: base.u32, v: base.u8) base.u8 {
	if this.a[0] < 8 {
		this.b[args.i & 7] = args.v
		return this.b[this.a[0]]
	}
	return 0
}
`},
}
