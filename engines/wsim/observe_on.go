//go:build wsimobs

package main

import (
	a "github.com/google/wuffs/lang/ast"
	"github.com/google/wuffs/lang/check"
)

// Built with the overlay of rewrite/factobs.go: lang/check calls back with the
// fact list held before each statement.
const haveObserver = true

func installFactObserver(f func(fn *a.Func, stmt *a.Node, after bool, facts []*a.Expr)) {
	check.VerifObserve = f
}
