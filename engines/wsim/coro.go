package main

// Coroutines, statuses and the I/O built-ins for the reference interpreter, and
// the simulated caller that drives them.
//
// A Wuffs coroutine can suspend in the middle of its body (at a `yield?`, or
// inside a `?` call such as args.src.read_u8?() when the source is empty) and
// is resumed by calling it again, possibly with different arguments; local
// variables survive, facts about args and this do not (doc/note/coroutines.md).
// The interpreter runs each top-level coroutine call on its own goroutine with
// a strict hand-off (exactly one side runs at any time, so there is no
// concurrency and no nondeterminism): suspending is blocking on a channel,
// resuming is a send. The whole interpreter stack of nested coroutine calls is
// thereby preserved for free.
//
// The simulated caller (driveHistory) decides everything a real caller decides,
// from the tape: how many source bytes arrive before each (re)entry, whether
// the source is closed, how much destination space there is and when it is
// drained, which scalar arguments change across a resumption, and which
// non-coroutine public methods are called while the coroutine is suspended.

import (
	"fmt"
	"math/big"
	"strings"

	a "github.com/google/wuffs/lang/ast"
	t "github.com/google/wuffs/lang/token"

	"verif/sim"
)

const kIO = 16

// ioBuf is a caller-owned I/O buffer (doc/note/io-input-output.md).
type ioBuf struct {
	data   []byte
	ri, wi int
	closed bool
	pos    uint64
	writer bool
	// mark: ri (reader) or wi (writer) when the current call was entered; a
	// Wuffs function may undo reads or writes down to it, never below.
	mark int
}

func ioVal(b *ioBuf) *val { return &val{kind: kIO, io: b} }

func statusVal(s string) *val { return &val{kind: kStatus, st: s} }

// cStatus renders a status the way the generated C names it.
func cStatus(v *val, pkg string) string {
	if v == nil || v.st == "" {
		return "ok"
	}
	owner := "base"
	if v.stPkg {
		owner = pkg
	}
	return v.st[:1] + owner + ": " + v.st[1:]
}

// driveStep is one action of the simulated caller, recorded so that a C driver
// can repeat it exactly (C04).
type driveStep struct {
	kind      string // "plain", "enter", "drain"
	fn        *a.Func
	cargs     []string // C argument expressions, in parameter order
	appendSrc []byte   // enter: source bytes delivered before the call
	closeSrc  bool     // enter: the source is marked closed before the call
	expect    string   // the line the interpreter's side produces
}

func isSuspension(v *val) bool { return v != nil && v.kind == kStatus && strings.HasPrefix(v.st, "$") }
func isError(v *val) bool      { return v != nil && v.kind == kStatus && strings.HasPrefix(v.st, "#") }

type killSignal struct{}

type coroMsg struct {
	args     map[t.ID]*val
	status   *val
	panicked interface{}
	kill     bool
}

type coroutine struct {
	fn     *a.Func
	toCoro chan coroMsg
	toHost chan coroMsg
	base   int // index in in.frames of the coroutine's outermost frame
}

// enter starts fn as a coroutine, or resumes it, with the given arguments, and
// returns the status it yields or returns.
func (in *interp) enter(fn *a.Func, argv map[t.ID]*val) *val {
	if in.active != nil && in.active.fn != fn {
		panic("harness: a different coroutine is suspended on this receiver")
	}
	if in.active == nil {
		c := &coroutine{fn: fn, toCoro: make(chan coroMsg), toHost: make(chan coroMsg), base: len(in.frames)}
		in.active = c
		go func() {
			defer func() {
				if r := recover(); r != nil {
					c.toHost <- coroMsg{panicked: r}
				}
			}()
			in.inCoro++
			st := in.call(fn, argv, false)
			in.inCoro--
			if st == nil {
				st = statusVal("")
			}
			c.toHost <- coroMsg{status: st}
		}()
	} else {
		in.active.toCoro <- coroMsg{args: argv}
	}
	msg := <-in.active.toHost
	if msg.panicked != nil {
		in.active = nil
		in.inCoro = 0
		panic(msg.panicked)
	}
	if !isSuspension(msg.status) {
		in.active = nil
	}
	return msg.status
}

// kill ends a suspended coroutine's goroutine (the run is over).
func (in *interp) kill() {
	if in.active == nil {
		return
	}
	c := in.active
	c.toCoro <- coroMsg{kill: true}
	<-c.toHost
	in.active = nil
	in.inCoro = 0
}

// suspend yields st to the caller and blocks until the coroutine is resumed.
func (in *interp) suspend(st *val) {
	if in.quiet {
		panic(quietAbort{"suspension inside a fact"})
	}
	c := in.active
	if c == nil || in.inCoro == 0 {
		unsup("suspension outside a coroutine driven by the harness")
	}
	in.suspensions++
	saved := in.depth
	c.toHost <- coroMsg{status: st}
	msg := <-c.toCoro
	if msg.kill {
		panic(killSignal{})
	}
	in.depth = saved
	// Locals that hold pointers (slices, tables, I/O values) are not part of a
	// coroutine's saved state: after a resumption they are back at their zero
	// value. (That is why the checker drops facts about them at a suspension
	// point: "drop any facts involving args, this or ptr-typed local
	// variables", lang/check/bounds.go; internal/cgen/var.go does not save
	// them.)
	for k := c.base; k < len(in.frames); k++ {
		f := in.frames[k]
		for id, typ := range f.ltypes {
			if typ.HasPointers() {
				f.locals[id] = in.zero(typ)
			}
		}
	}
	// The caller may pass different arguments on resumption...
	in.frames[c.base].args = msg.args
	// ...and each nested `?` call is re-issued by its caller with its argument
	// expressions evaluated afresh (that is how the generated code resumes).
	top := in.frames
	for k := c.base + 1; k < len(top); k++ {
		f := top[k]
		if f.argExprs == nil {
			continue
		}
		in.frames = top[:k]
		in.quiet = true
		func() {
			defer func() {
				in.quiet = false
				if r := recover(); r != nil {
					if _, ok := r.(quietAbort); ok {
						in.frames = top
						unsup("argument of a suspended inner call cannot be re-evaluated")
					}
					panic(r)
				}
			}()
			for _, o := range f.argExprs {
				arg := o.AsArg()
				v := in.eval(arg.Value())
				c := &val{}
				c.copyFrom(v)
				f.args[arg.Name()] = c
			}
		}()
	}
	in.frames = top
}

// ---- I/O built-ins ----

func (in *interp) ioCall(n *a.Expr, recv *a.Expr, r *val, name string, args []*a.Node) *val {
	b := r.io
	isReader := recv.MType().QID()[1] == t.IDIOReader
	if isReader == b.writer {
		unsup("io type mismatch")
	}
	arg := func(i int) *val {
		if i >= len(args) {
			unsup("arity of %s", name)
		}
		v := in.eval(args[i].AsArg().Value())
		in.monitor(args[i].AsArg().Value(), v)
		return v
	}
	u64 := func(x uint64) *val { return bigVal(new(big.Int).SetUint64(x)) }
	switch name {
	case "length":
		if isReader {
			return intVal(int64(b.wi - b.ri))
		}
		return intVal(int64(len(b.data) - b.wi))
	case "position":
		if isReader {
			return u64(b.pos + uint64(b.ri))
		}
		return u64(b.pos + uint64(b.wi))
	case "is_closed":
		return boolVal(b.closed)
	case "can_undo_byte":
		if isReader {
			return boolVal(b.ri > b.mark)
		}
		return boolVal(b.wi > b.mark)
	}
	if isReader {
		if width, as, be, peek, ok := parseReadName(name); ok {
			nbytes := width / 8
			_ = as
			var acc uint64
			if peek {
				if b.wi-b.ri < nbytes {
					in.fail("io_peek_out_of_bounds", "%q: %d bytes needed, %d available: the compiler accepted a peek without enough proven input", n.Str(in.tm), nbytes, b.wi-b.ri)
				}
				for k := 0; k < nbytes; k++ {
					acc = accumulate(acc, b.data[b.ri+k], k, nbytes, be)
				}
				return u64(acc)
			}
			for k := 0; k < nbytes; k++ {
				for b.ri == b.wi {
					in.suspend(statusVal("$short read"))
				}
				acc = accumulate(acc, b.data[b.ri], k, nbytes, be)
				b.ri++
			}
			return u64(acc)
		}
		switch name {
		case "skip", "skip_u32":
			v := arg(0)
			if !v.i.IsUint64() {
				unsup("skip amount")
			}
			rem := v.i.Uint64()
			for {
				avail := uint64(b.wi - b.ri)
				if rem <= avail {
					b.ri += int(rem)
					return nil
				}
				rem -= avail
				b.ri = b.wi
				in.suspend(statusVal("$short read"))
			}
		case "skip_u32_fast":
			actual, worst := arg(0), arg(1)
			if actual.i.Cmp(worst.i) > 0 || worst.i.Cmp(big.NewInt(int64(b.wi-b.ri))) > 0 {
				in.fail("io_skip_out_of_bounds", "%q: actual %s, worst case %s, available %d", n.Str(in.tm), actual.i, worst.i, b.wi-b.ri)
			}
			b.ri += int(actual.i.Int64())
			return nil
		}
	} else if name == "write_u8" {
		v := arg(0)
		for b.wi == len(b.data) {
			in.suspend(statusVal("$short write"))
		}
		b.data[b.wi] = byte(v.i.Uint64())
		b.wi++
		return nil
	}
	unsup("I/O built-in %s", name)
	return nil
}

func accumulate(acc uint64, c byte, k, n int, be bool) uint64 {
	if be {
		return acc<<8 | uint64(c)
	}
	return acc | uint64(c)<<(8*uint(k))
}

// parseReadName understands read_u8, read_u16le, read_u24be_as_u32, peek_u8,
// peek_u32le_as_u64, ...
func parseReadName(name string) (width, as int, be, peek, ok bool) {
	s := name
	switch {
	case strings.HasPrefix(s, "read_u"):
		s = s[len("read_u"):]
	case strings.HasPrefix(s, "peek_u"):
		s, peek = s[len("peek_u"):], true
	default:
		return
	}
	if strings.HasSuffix(s, "_at") {
		return
	}
	rest := s
	if i := strings.Index(s, "_as_u"); i >= 0 {
		rest = s[:i]
		fmt.Sscan(s[i+len("_as_u"):], &as)
	}
	switch {
	case strings.HasSuffix(rest, "le"):
		rest = rest[:len(rest)-2]
	case strings.HasSuffix(rest, "be"):
		rest, be = rest[:len(rest)-2], true
	}
	if _, err := fmt.Sscan(rest, &width); err != nil || width%8 != 0 || width < 8 || width > 64 {
		return
	}
	if as == 0 {
		as = width
	}
	return width, as, be, peek, true
}

// ---- the simulated caller ----

type drivePolicy struct {
	maxChunk    int  // source bytes delivered per (re)entry: 0..maxChunk
	dstCap      int  // destination capacity
	changeArgs  bool // scalar arguments may change across a resumption
	interleave  bool // non-coroutine public methods are called while suspended
	closeAtOnce bool // the source is closed as soon as its last byte is delivered
}

// driveHistory runs a seeded history of public calls. Coroutines get I/O
// buffers and are resumed until they finish, fail or starve.
func driveHistory(p *program, tp *sim.Tape, observer func(*interp, *a.Func, *a.Node, bool)) (res execResult) {
	in := &interp{tm: p.tm, funcs: p.funcs, strct: p.strct, this: map[t.ID]*val{}, maxStep: 200000, observer: observer}
	res.interp = in
	defer func() {
		res.checks, res.steps, res.suspensions = in.nChecks, in.steps, in.suspensions
		r := recover()
		func() {
			defer func() { recover() }()
			in.kill()
		}()
		if r != nil {
			switch x := r.(type) {
			case *violation:
				res.viol = x
			case unsupported:
				res.unsupported = x.what
			default:
				panic(r)
			}
		}
	}()
	for _, o := range p.strct.Fields() {
		f := o.AsField()
		in.this[f.Name()] = in.zero(f.XType())
	}
	if len(p.pubs) == 0 {
		unsup("no public method")
	}
	pol := drivePolicy{
		maxChunk:    []int{1, 1, 2, 3, 8, 64}[tp.Draw(6)],
		dstCap:      []int{1, 2, 3, 8, 64}[tp.Draw(5)],
		changeArgs:  tp.Chance(2, 3),
		interleave:  tp.Chance(1, 2),
		closeAtOnce: tp.Bool(),
	}
	var plain, coros []*a.Func
	for _, f := range p.pubs {
		if f.Effect().Coroutine() {
			coros = append(coros, f)
		} else {
			plain = append(plain, f)
		}
	}
	// (up to 60 bytes: a read soup of ten 8-byte reads wants them)
	stream := tp.Bytes(tp.Draw(61), tp.Draw(6))
	res.stream, res.dstCap = stream, pol.dstCap
	src := &ioBuf{}
	dst := &ioBuf{data: make([]byte, pol.dstCap), writer: true}
	delivered := 0
	callPlain := func(fn *a.Func) {
		argv := map[t.ID]*val{}
		var shown []string
		for _, o := range fn.In().Fields() {
			fld := o.AsField()
			lo, hi, ok := in.typeRange(fld.XType())
			switch {
			case ok:
				argv[fld.Name()] = bigVal(drawInt(tp, lo, hi))
			case fld.XType().IsBool():
				argv[fld.Name()] = boolVal(tp.Bool())
			default:
				unsup("parameter type %s", fld.XType().Str(p.tm))
			}
			shown = append(shown, fld.Name().Str(p.tm)+": "+argv[fld.Name()].String())
		}
		var cargs []string
		for _, o := range fn.In().Fields() {
			fld := o.AsField()
			if v := argv[fld.Name()]; v.kind == kBool {
				cargs = append(cargs, map[bool]string{true: "true", false: "false"}[v.b])
			} else {
				cargs = append(cargs, fmt.Sprintf("(%s)%sULL", cType(in, fld.XType()), v.i.String()))
			}
		}
		ret := in.call(fn, argv, false)
		line := fn.FuncName().Str(p.tm) + "(" + strings.Join(shown, ", ") + ")"
		if ret != nil {
			line += " -> " + ret.String()
		}
		res.calls = append(res.calls, line)
		res.steps2 = append(res.steps2, driveStep{kind: "plain", fn: fn, cargs: cargs, expect: renderRet(fn.FuncName().Str(p.tm), ret)})
	}
	drain := func() {
		res.output = append(res.output, dst.data[:dst.wi]...)
		res.steps2 = append(res.steps2, driveStep{kind: "drain", expect: fmt.Sprintf("dst %x", dst.data[:dst.wi])})
		dst.pos += uint64(dst.wi)
		dst.wi = 0
	}
	ncalls := 1 + tp.Draw(6)
	for i := 0; i < ncalls; i++ {
		if len(coros) == 0 || (len(plain) > 0 && tp.Chance(1, 3)) {
			callPlain(plain[tp.Draw(len(plain))])
			continue
		}
		fn := coros[tp.Draw(len(coros))]
		scalars := map[t.ID]*val{}
		drawScalars := func(redrawAll bool) {
			for _, o := range fn.In().Fields() {
				fld := o.AsField()
				if fld.XType().IsIOTokenType() {
					continue
				}
				if _, have := scalars[fld.Name()]; have && !redrawAll && !tp.Bool() {
					continue
				}
				lo, hi, ok := in.typeRange(fld.XType())
				switch {
				case ok:
					scalars[fld.Name()] = bigVal(drawInt(tp, lo, hi))
				case fld.XType().IsBool():
					scalars[fld.Name()] = boolVal(tp.Bool())
				default:
					unsup("parameter type %s", fld.XType().Str(p.tm))
				}
			}
		}
		drawScalars(true)
		for entry := 0; entry < 64; entry++ {
			// the producer: some more source bytes
			step := driveStep{kind: "enter", fn: fn}
			if k := tp.Draw(pol.maxChunk + 1); k > 0 && delivered < len(stream) {
				if k > len(stream)-delivered {
					k = len(stream) - delivered
				}
				src.data = append(src.data, stream[delivered:delivered+k]...)
				step.appendSrc = stream[delivered : delivered+k]
				src.wi += k
				delivered += k
			}
			if delivered == len(stream) && (pol.closeAtOnce || entry > 0) {
				src.closed = true
			}
			step.closeSrc = src.closed
			argv := map[t.ID]*val{}
			var shown []string
			for _, o := range fn.In().Fields() {
				fld := o.AsField()
				switch {
				case fld.XType().IsIOTokenType() && fld.XType().QID()[1] == t.IDIOReader:
					argv[fld.Name()] = ioVal(src)
					step.cargs = append(step.cargs, "&src")
				case fld.XType().IsIOTokenType() && fld.XType().QID()[1] == t.IDIOWriter:
					argv[fld.Name()] = ioVal(dst)
					step.cargs = append(step.cargs, "&dst")
				case fld.XType().IsIOTokenType():
					unsup("token I/O")
				default:
					c := &val{}
					c.copyFrom(scalars[fld.Name()])
					argv[fld.Name()] = c
					shown = append(shown, fld.Name().Str(p.tm)+": "+c.String())
					if c.kind == kBool {
						step.cargs = append(step.cargs, map[bool]string{true: "true", false: "false"}[c.b])
					} else {
						step.cargs = append(step.cargs, fmt.Sprintf("(%s)%sULL", cType(in, fld.XType()), c.i.String()))
					}
				}
			}
			src.mark, dst.mark = src.ri, dst.wi
			st := in.enter(fn, argv)
			step.expect = fmt.Sprintf("%s? %s ri=%d wi=%d", fn.FuncName().Str(p.tm), cStatus(st, "zfoo"), src.ri, dst.wi)
			res.steps2 = append(res.steps2, step)
			res.calls = append(res.calls, fmt.Sprintf("%s?(%s) [src %d/%d%s, dst %d/%d] -> %q", fn.FuncName().Str(p.tm), strings.Join(shown, ", "),
				src.ri, src.wi, map[bool]string{true: " closed", false: ""}[src.closed], dst.wi, len(dst.data), st.st))
			if !isSuspension(st) {
				if isError(st) {
					// the receiver is disabled from here on
					return res
				}
				break
			}
			if st.st == "$short read" && src.closed && src.ri == src.wi {
				// starved for good: a real caller would report an unexpected
				// end of input and drop the decoder
				return res
			}
			// the consumer: drain the destination (always when it is full)
			if dst.wi == len(dst.data) || tp.Bool() {
				drain()
			}
			if pol.changeArgs {
				drawScalars(false)
			}
			if pol.interleave && len(plain) > 0 && tp.Chance(1, 2) {
				callPlain(plain[tp.Draw(len(plain))])
			}
		}
		if in.active != nil {
			// still suspended after many entries (waiting for input that the
			// policy delivers slowly): end the run here
			return res
		}
		drain()
	}
	return res
}
