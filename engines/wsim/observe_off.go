//go:build !wsimobs

package main

import (
	a "github.com/google/wuffs/lang/ast"
)

const haveObserver = false

func installFactObserver(f func(fn *a.Func, stmt *a.Node, after bool, facts []*a.Expr)) {}
