package main

// generateExprProgram: the operator-stress generator (C04; also a program source
// for C01 and C02). Methods compute with every numeric width at once so that the
// C generator's integer-promotion casts, operator mapping, conversions,
// compound assignments on narrow types, built-in numeric methods and the goto
// lowering of labelled break / continue out of nested loops are all exercised.
// Everything is built from operators that are safe by construction (modular,
// saturating, bitwise, shifts and divisions by constants, conversions after a
// mask or a shift), so most programs are accepted by the checker.

import (
	"fmt"
	"strings"

	"verif/sim"
)

var exprWidths = []int{8, 16, 32, 64}

type exprGen struct {
	tp     *sim.Tape
	labels []string // enclosing loop labels, innermost last
	nlabel int
	helper bool
	inLoop int
	// outerBound is the bound of the enclosing counted loop (kept as an
	// invariant of the inner one).
	outerBound int
}

func maxOf(w int) uint64 {
	if w == 64 {
		return ^uint64(0)
	}
	return (uint64(1) << uint(w)) - 1
}

func (g *exprGen) konst(w int) string {
	m := maxOf(w)
	switch g.tp.Pick(4, 2, 2, 2, 1, 1) {
	case 0:
		return fmt.Sprint(g.tp.Draw(10))
	case 1:
		return fmt.Sprint(m)
	case 2:
		return fmt.Sprint(m - uint64(g.tp.Draw(3)))
	case 3:
		return fmt.Sprint((m >> 1) + uint64(g.tp.Draw(2))) // around the sign bit
	case 4:
		return fmt.Sprint(uint64(g.tp.Draw(256)) & m)
	}
	return fmt.Sprint((uint64(g.tp.Draw(1<<30))<<17 ^ uint64(g.tp.Draw(1<<30))) & m)
}

func (g *exprGen) leaf(w int) string {
	tp := g.tp
	switch tp.Pick(4, 4, 3, 2, 2) {
	case 0:
		return fmt.Sprintf("args.a%d", w)
	case 1:
		return fmt.Sprintf("x%d", w)
	case 2:
		return fmt.Sprintf("this.f%d", w)
	case 3:
		return g.konst(w)
	}
	if w == 64 {
		return "this.f64"
	}
	return fmt.Sprintf("this.t%d[%s & 3]", w, []string{"x32", "args.a32", "i", "this.f32"}[tp.Draw(4)])
}

// expr returns an expression of type base.u<w>.
func (g *exprGen) expr(w, depth int) string {
	tp := g.tp
	if depth <= 0 || tp.Chance(1, 5) {
		return g.leaf(w)
	}
	a := func() string { return g.expr(w, depth-1) }
	switch tp.Pick(5, 4, 3, 3, 3, 3, 3, 2, 2, 3, 3, 2, 2, 2, 1) {
	case 0:
		return fmt.Sprintf("(%s ~mod+ %s)", a(), a())
	case 1:
		return fmt.Sprintf("(%s ~mod- %s)", a(), a())
	case 2:
		return fmt.Sprintf("(%s ~mod* %s)", a(), a())
	case 3:
		return fmt.Sprintf("(%s ~sat+ %s)", a(), a())
	case 4:
		return fmt.Sprintf("(%s ~sat- %s)", a(), a())
	case 5:
		return fmt.Sprintf("(%s & %s)", a(), a())
	case 6:
		return fmt.Sprintf("(%s | %s)", a(), a())
	case 7:
		return fmt.Sprintf("(%s ^ %s)", a(), a())
	case 8:
		if tp.Chance(1, 3) { // a shift amount with a known range
			return fmt.Sprintf("(%s >> (x32 & %d))", a(), []int{1, 3, 7}[tp.Draw(3)])
		}
		return fmt.Sprintf("(%s >> %d)", a(), tp.Draw(w))
	case 9:
		if tp.Chance(1, 3) {
			return fmt.Sprintf("(%s ~mod<< (args.a32 & %d))", a(), []int{1, 3, 7}[tp.Draw(3)])
		}
		return fmt.Sprintf("(%s ~mod<< %d)", a(), tp.Draw(w))
	case 10: // widening conversion
		var narrower []int
		for _, o := range exprWidths {
			if o < w {
				narrower = append(narrower, o)
			}
		}
		if len(narrower) == 0 {
			return fmt.Sprintf("(%s / %d)", a(), 1+tp.Draw(9))
		}
		return fmt.Sprintf("(%s as base.u%d)", g.expr(narrower[tp.Draw(len(narrower))], depth-1), w)
	case 11: // narrowing conversion after a mask or a shift
		var wider []int
		for _, o := range exprWidths {
			if o > w {
				wider = append(wider, o)
			}
		}
		if len(wider) == 0 {
			return fmt.Sprintf("(%s %% %d)", a(), 1+tp.Draw(9))
		}
		ow := wider[tp.Draw(len(wider))]
		if tp.Bool() {
			return fmt.Sprintf("((%s & %d) as base.u%d)", g.expr(ow, depth-1), maxOf(w), w)
		}
		return fmt.Sprintf("((%s >> %d) as base.u%d)", g.expr(ow, depth-1), ow-w, w)
	case 12:
		// divisor: a constant, or an expression with a known non-zero range
		d := fmt.Sprint(1 + tp.Draw(9))
		if tp.Chance(1, 2) {
			d = fmt.Sprintf("((%s & %d) + %d)", g.leaf(w), []int{1, 3, 7, 15}[tp.Draw(4)], 1+tp.Draw(3))
		}
		if tp.Bool() {
			return fmt.Sprintf("(%s / %s)", a(), d)
		}
		return fmt.Sprintf("(%s %% %s)", a(), d)
	case 13:
		v := []string{fmt.Sprintf("x%d", w), fmt.Sprintf("args.a%d", w), fmt.Sprintf("this.f%d", w)}[tp.Draw(3)]
		switch tp.Draw(4) {
		case 0:
			return fmt.Sprintf("%s.min(no_more_than: %s)", v, a())
		case 1:
			return fmt.Sprintf("%s.max(no_less_than: %s)", v, a())
		case 2:
			if tp.Chance(1, 3) { // a non-constant bit count with a known range
				return fmt.Sprintf("%s.low_bits(n: (args.a32 & %d))", v, []int{3, 7, 15, 31}[tp.Draw(4)]&(w-1))
			}
			return fmt.Sprintf("%s.low_bits(n: %d)", v, tp.Draw(w+1))
		}
		return fmt.Sprintf("%s.high_bits(n: %d)", v, tp.Draw(w+1))
	}
	if g.helper && w == 8 {
		return fmt.Sprintf("this.h8(x: %s)", a())
	}
	if g.helper && w == 32 {
		// several parameters of different widths: argument order matters
		return fmt.Sprintf("this.mix(p: %s, q: %s, r: %s)", g.expr(8, depth-1), g.expr(16, depth-1), a())
	}
	return g.leaf(w)
}

func (g *exprGen) cond(depth int) string {
	tp := g.tp
	w := exprWidths[tp.Draw(4)]
	simple := func() string {
		l, r := g.expr(w, depth), g.expr(w, depth)
		switch tp.Pick(4, 1, 1) {
		case 1:
			l = g.konst(w) // a constant on the left
		case 2:
			r = g.konst(w)
		}
		return fmt.Sprintf("%s %s %s", l, []string{"<", "<=", "==", "<>", ">", ">="}[tp.Draw(6)], r)
	}
	switch tp.Pick(5, 1, 1, 1) {
	case 1:
		return fmt.Sprintf("(%s) and (%s)", simple(), simple())
	case 2:
		return fmt.Sprintf("(%s) or (%s)", simple(), simple())
	case 3:
		return fmt.Sprintf("not (%s)", simple())
	}
	return simple()
}

var compoundOps = []string{"~mod+=", "~mod-=", "~mod*=", "~sat+=", "~sat-=", "&=", "|=", "^="}

func (g *exprGen) stmts(n, depth int) []string {
	var out []string
	for i := 0; i < n; i++ {
		out = append(out, g.stmt(depth)...)
	}
	return out
}

func (g *exprGen) stmt(depth int) []string {
	tp := g.tp
	w := exprWidths[tp.Pick(3, 3, 2, 2)]
	kind := tp.Pick(5, 5, 3, 3, 3, 2, 2)
	if depth >= 3 && (kind == 4 || kind == 5) {
		kind = 0
	}
	switch kind {
	case 0:
		return []string{fmt.Sprintf("x%d = %s", w, g.expr(w, 2))}
	case 1:
		dst := []string{fmt.Sprintf("x%d", w), fmt.Sprintf("this.f%d", w)}[tp.Pick(3, 2)]
		if w != 64 && tp.Chance(1, 4) {
			dst = fmt.Sprintf("this.t%d[%s & 3]", w, []string{"x32", "args.a32", "this.f32"}[tp.Draw(3)])
		}
		switch tp.Pick(6, 1, 1, 1, 1) {
		case 1:
			return []string{fmt.Sprintf("%s >>= %d", dst, tp.Draw(w))}
		case 2:
			return []string{fmt.Sprintf("%s ~mod<<= %d", dst, tp.Draw(w))}
		case 3:
			return []string{fmt.Sprintf("%s /= %d", dst, 1+tp.Draw(9))}
		case 4:
			return []string{fmt.Sprintf("%s %%= %d", dst, 1+tp.Draw(9))}
		}
		return []string{fmt.Sprintf("%s %s %s", dst, compoundOps[tp.Draw(len(compoundOps))], g.expr(w, 1))}
	case 2:
		return []string{fmt.Sprintf("this.f%d = %s", w, g.expr(w, 2))}
	case 3:
		if w == 64 {
			return []string{fmt.Sprintf("this.f64 = %s", g.expr(64, 2))}
		}
		return []string{fmt.Sprintf("this.t%d[%s & 3] = %s", w, g.expr(32, 1), g.expr(w, 2))}
	case 4:
		out := []string{fmt.Sprintf("if %s {", g.cond(1))}
		out = append(out, ind(g.stmts(1+tp.Draw(2), depth+1))...)
		if tp.Chance(1, 3) {
			out = append(out, fmt.Sprintf("} else if %s {", g.cond(1)))
			out = append(out, ind(g.stmts(1+tp.Draw(2), depth+1))...)
		}
		if tp.Chance(1, 2) {
			out = append(out, "} else {")
			out = append(out, ind(g.stmts(1+tp.Draw(2), depth+1))...)
		}
		return append(out, "}")
	case 5:
		if g.inLoop >= 2 {
			return []string{fmt.Sprintf("x%d = %s", w, g.expr(w, 2))}
		}
		// a counted loop; the counter of the outer loop is kept as an
		// invariant of the inner one
		ctr := []string{"i", "j"}[g.inLoop]
		g.nlabel++
		lbl := fmt.Sprintf("l%d", g.nlabel)
		bound := 1 + tp.Draw(6)
		out := []string{fmt.Sprintf("%s = 0", ctr)}
		head := fmt.Sprintf("while.%s %s < %d", lbl, ctr, bound)
		if g.inLoop == 1 {
			out = append(out, head+",", "\t\tinv i < "+fmt.Sprint(g.outerBound)+",", "{")
		} else {
			g.outerBound = bound
			out = append(out, head+" {")
		}
		g.labels = append(g.labels, lbl)
		g.inLoop++
		body := g.stmts(tp.Draw(3), depth+1)
		if tp.Chance(1, 2) {
			// break, possibly out of the enclosing loop too (a deep jump)
			target := g.labels[tp.Draw(len(g.labels))]
			body = append(body, fmt.Sprintf("if %s {", g.cond(1)), "\tbreak."+target, "}")
		}
		if tp.Chance(1, 3) {
			body = append(body, fmt.Sprintf("if %s {", g.cond(1)), fmt.Sprintf("\t%s += 1", ctr), "\tcontinue."+lbl, "}")
		}
		body = append(body, g.stmts(tp.Draw(2), depth+1)...)
		body = append(body, fmt.Sprintf("%s += 1", ctr))
		g.inLoop--
		g.labels = g.labels[:len(g.labels)-1]
		out = append(out, ind(body)...)
		return append(out, "}."+lbl)
	}
	if g.helper {
		return []string{fmt.Sprintf("this.bump!(d: %s)", g.expr(16, 1))}
	}
	return []string{fmt.Sprintf("x%d = %s", w, g.expr(w, 2))}
}

func generateExprProgram(tp *sim.Tape) string {
	g := &exprGen{tp: tp, helper: tp.Chance(2, 3)}
	var sb strings.Builder
	sb.WriteString("pub struct foo?(\n")
	for _, w := range exprWidths {
		fmt.Fprintf(&sb, "\tf%d : base.u%d,\n", w, w)
	}
	for _, w := range []int{8, 16, 32} {
		fmt.Fprintf(&sb, "\tt%d : array[4] base.u%d,\n", w, w)
	}
	sb.WriteString(")\n\n")
	mech := map[string]string{}
	if g.helper {
		sb.WriteString("pri func foo.h8(x: base.u8) base.u8 {\n\treturn (args.x ~mod* 3) ~mod+ (this.f8 >> 1)\n}\n\n")
		sb.WriteString("pri func foo.bump!(d: base.u16) {\n\tthis.f16 ~mod+= args.d\n\tthis.f32 ~sat+= (args.d as base.u32)\n}\n\n")
		sb.WriteString("pri func foo.mix(p: base.u8, q: base.u16, r: base.u32) base.u32 {\n\treturn (((args.p as base.u32) ~mod<< 16) ~mod+ ((args.q as base.u32) ~mod* 3)) ~mod- args.r\n}\n\n")
		mech["h8"], mech["bump"], mech["mix"] = "helper", "helper", "helper"
	}
	nm := 1 + tp.Draw(3)
	for m := 0; m < nm; m++ {
		rw := exprWidths[tp.Draw(4)]
		g.labels, g.inLoop = nil, 0
		ret := fmt.Sprintf(" base.u%d", rw)
		if tp.Chance(1, 6) {
			ret = ""
		}
		fmt.Fprintf(&sb, "pub func foo.m%d!(a8: base.u8, a16: base.u16, a32: base.u32, a64: base.u64)%s {\n", m, ret)
		for _, w := range exprWidths {
			fmt.Fprintf(&sb, "\tvar x%d : base.u%d\n", w, w)
		}
		sb.WriteString("\tvar i : base.u32\n\tvar j : base.u32\n")
		for _, l := range g.stmts(2+tp.Draw(6), 0) {
			sb.WriteString("\t" + l + "\n")
		}
		if ret != "" {
			fmt.Fprintf(&sb, "\treturn %s\n", g.expr(rw, 2))
		}
		sb.WriteString("}\n\n")
		mech[fmt.Sprintf("m%d", m)] = "expr"
	}
	lastGenMech = mech
	return sb.String()
}
