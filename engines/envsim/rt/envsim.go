// Package envsim is the runtime behind the map-order / directory-order rewrite
// of the compiler (engine E, C20). It is added to the build as the virtual
// package github.com/google/wuffs/lib/envsim through `go build -overlay`; it
// does not exist in the repository.
//
// Every permutation is a pure function of (VERIF_ENV_SEED, this process's
// arguments, a per-process call counter): one seed is one exactly repeatable
// compilation, including all the wuffs-c child processes (the seed travels in
// the environment). VERIF_ENV_SEED unset or "0" means canonical (sorted) order.
//
// Go 1.16 language subset (the repository's go.mod): no generics.
package envsim

import (
	"fmt"
	"os"
	"reflect"
	"sort"
	"strconv"
	"strings"
)

var (
	seed    uint64
	counter uint64
	inited  bool
	// Calls counts MapKeys/Perm* invocations (reported by the harness).
	Calls uint64
)

func splitmix(x *uint64) uint64 {
	*x += 0x9E3779B97F4A7C15
	z := *x
	z = (z ^ (z >> 30)) * 0xBF58476D1CE4E5B9
	z = (z ^ (z >> 27)) * 0x94D049BB133111EB
	return z ^ (z >> 31)
}

func initSeed() {
	inited = true
	s, _ := strconv.ParseUint(os.Getenv("VERIF_ENV_SEED"), 10, 64)
	if s == 0 {
		return
	}
	// Different processes of one compilation permute differently, but
	// deterministically: the arguments of a wuffs-c child are fixed by the
	// package being compiled. Absolute paths are reduced to their base names
	// so that the scratch root's location does not enter the seed.
	h := s
	for _, a := range os.Args[1:] {
		if i := strings.LastIndexByte(a, '/'); i >= 0 {
			a = a[i+1:]
		}
		for i := 0; i < len(a); i++ {
			h = (h ^ uint64(a[i])) * 1099511628211
		}
	}
	seed = h | 1
}

// perm returns a permutation of 0..n-1 (identity when unseeded).
func perm(n int) []int {
	if !inited {
		initSeed()
	}
	Calls++
	p := make([]int, n)
	for i := range p {
		p[i] = i
	}
	if seed == 0 || n < 2 {
		return p
	}
	counter++
	st := seed ^ (counter * 0xD1B54A32D192ED03)
	for i := n - 1; i > 0; i-- {
		j := int(splitmix(&st) % uint64(i+1))
		p[i], p[j] = p[j], p[i]
	}
	return p
}

func less(a, b reflect.Value) bool {
	switch a.Kind() {
	case reflect.String:
		return a.String() < b.String()
	case reflect.Int, reflect.Int8, reflect.Int16, reflect.Int32, reflect.Int64:
		return a.Int() < b.Int()
	case reflect.Uint, reflect.Uint8, reflect.Uint16, reflect.Uint32, reflect.Uint64, reflect.Uintptr:
		return a.Uint() < b.Uint()
	case reflect.Bool:
		return !a.Bool() && b.Bool()
	case reflect.Array:
		for i := 0; i < a.Len(); i++ {
			if less(a.Index(i), b.Index(i)) {
				return true
			}
			if less(b.Index(i), a.Index(i)) {
				return false
			}
		}
		return false
	case reflect.Struct:
		for i := 0; i < a.NumField(); i++ {
			if less(a.Field(i), b.Field(i)) {
				return true
			}
			if less(b.Field(i), a.Field(i)) {
				return false
			}
		}
		return false
	case reflect.Ptr, reflect.UnsafePointer, reflect.Chan:
		// No canonical order exists for pointers across runs; within a run
		// this is at least a total order to permute from.
		return a.Pointer() < b.Pointer()
	case reflect.Interface:
		if a.IsNil() || b.IsNil() {
			return a.IsNil() && !b.IsNil()
		}
		if a.Elem().Type() != b.Elem().Type() {
			return a.Elem().Type().String() < b.Elem().Type().String()
		}
		return less(a.Elem(), b.Elem())
	}
	return fmt.Sprint(a.Interface()) < fmt.Sprint(b.Interface())
}

// MapKeys returns m's keys: sorted canonically, then permuted by the seed.
func MapKeys(m interface{}) []reflect.Value {
	keys := reflect.ValueOf(m).MapKeys()
	sort.Slice(keys, func(i, j int) bool { return less(keys[i], keys[j]) })
	p := perm(len(keys))
	out := make([]reflect.Value, len(keys))
	for i, j := range p {
		out[i] = keys[j]
	}
	return out
}

// PermFileInfos permutes the result of (*os.File).Readdir.
func PermFileInfos(infos []os.FileInfo, err error) ([]os.FileInfo, error) {
	sort.Slice(infos, func(i, j int) bool { return infos[i].Name() < infos[j].Name() })
	p := perm(len(infos))
	out := make([]os.FileInfo, len(infos))
	for i, j := range p {
		out[i] = infos[j]
	}
	return out, err
}

// PermNames permutes the result of (*os.File).Readdirnames.
func PermNames(names []string, err error) ([]string, error) {
	sort.Strings(names)
	p := perm(len(names))
	out := make([]string, len(names))
	for i, j := range p {
		out[i] = names[j]
	}
	return out, err
}

// PermDirEntries permutes the result of (*os.File).ReadDir.
func PermDirEntries(ents []os.DirEntry, err error) ([]os.DirEntry, error) {
	sort.Slice(ents, func(i, j int) bool { return ents[i].Name() < ents[j].Name() })
	p := perm(len(ents))
	out := make([]os.DirEntry, len(ents))
	for i, j := range p {
		out[i] = ents[j]
	}
	return out, err
}
