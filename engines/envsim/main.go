// Engine E ("envsim"): the compiler under a seeded environment (C20).
//
// One run = one whole `wuffs gen std/...` (the `wuffs` driver plus one wuffs-c
// child per package) executed by tools that were built from the working tree
// with every map iteration and every directory listing rewritten onto a seeded
// permutation (see /verif/rewrite/maprange.go), in a scratch Wuffs root of a
// drawn path length, from a drawn working directory, with a drawn GOMAXPROCS
// and drawn unrelated environment variables. Oracle: the sha256 of every
// generated artefact equals the reference produced by the UN-rewritten tools
// (which also guards the rewriter itself). Mode "committed" checks the two
// "generated == committed" clauses.
//
// This binary links nothing from /repo: it only runs tools.
package main

import (
	"bytes"
	"crypto/sha256"
	"encoding/hex"
	"encoding/json"
	"fmt"
	"os"
	"os/exec"
	"path/filepath"
	"sort"
	"strings"

	"verif/sim"
)

func main() {
	sim.WorkerMain(sim.EngineSpec{
		Name: "envsim",
		Props: map[string]sim.PropSpec{
			"C20": {Run: runC20, Modes: []string{"permuted", "permuted", "permuted", "permuted", "permuted", "committed"}},
		},
	})
}

func die(format string, a ...interface{}) {
	fmt.Fprintf(os.Stderr, "envsim: "+format+"\n", a...)
	os.Exit(2)
}

// hashTree returns relative path -> sha256 for every regular file under the
// given directories of root.
func hashTree(root string, dirs ...string) (map[string]string, error) {
	out := map[string]string{}
	for _, d := range dirs {
		base := filepath.Join(root, d)
		err := filepath.Walk(base, func(p string, fi os.FileInfo, err error) error {
			if err != nil {
				if os.IsNotExist(err) {
					return nil
				}
				return err
			}
			if !fi.Mode().IsRegular() {
				return nil
			}
			b, err := os.ReadFile(p)
			if err != nil {
				return err
			}
			s := sha256.Sum256(b)
			rel, _ := filepath.Rel(root, p)
			out[rel] = hex.EncodeToString(s[:])
			return nil
		})
		if err != nil {
			return nil, err
		}
	}
	return out, nil
}

var reference map[string]string

func loadReference(path string) map[string]string {
	if reference != nil {
		return reference
	}
	b, err := os.ReadFile(path)
	if err != nil {
		die("reference hashes: %v", err)
	}
	if err := json.Unmarshal(b, &reference); err != nil {
		die("reference hashes: %v", err)
	}
	return reference
}

func copyStd(repo, root string) error {
	if err := os.MkdirAll(root, 0o755); err != nil {
		return err
	}
	if out, err := exec.Command("cp", "-r", filepath.Join(repo, "std"), filepath.Join(root, "std")).CombinedOutput(); err != nil {
		return fmt.Errorf("cp std: %v %s", err, out)
	}
	out, err := exec.Command("cp", filepath.Join(repo, "wuffs-root-directory.txt"), root).CombinedOutput()
	if err != nil {
		return fmt.Errorf("cp marker: %v %s", err, out)
	}
	return nil
}

func runC20(t *sim.Tape, opt sim.RunOpt) *sim.Outcome {
	o := &sim.Outcome{}
	repo := opt.Extra["repo"]
	ref := loadReference(opt.Extra["reference"])
	if opt.Mode == "committed" {
		return runCommitted(t, opt, o, ref)
	}
	envSeed := 1 + t.Draw(1<<30)
	procs := []string{"1", "2", "4", "16"}[t.Draw(4)]
	depth := t.Draw(4)
	pad := strings.Repeat("p", 1+t.Size(60))
	fromSub := t.Pick(2, 1, 1)
	var extraEnv []string
	for i, n := 0, t.Draw(4); i < n; i++ {
		extraEnv = append(extraEnv, []string{"LANG=C", "LANG=tr_TR.UTF-8", "TZ=Pacific/Kiritimati", "LC_ALL=de_DE.UTF-8",
			"GODEBUG=gctrace=0", "HOME=/nonexistent", "TMPDIR=/tmp", "GOGC=1", "COLUMNS=7"}[t.Draw(9)])
	}
	base, err := os.MkdirTemp(opt.Extra["scratch"], "c20-")
	if err != nil {
		die("%v", err)
	}
	defer os.RemoveAll(base)
	root := base
	for i := 0; i < depth; i++ {
		root = filepath.Join(root, fmt.Sprintf("d%d%s", i, pad[:1+len(pad)/(i+2)]))
	}
	root = filepath.Join(root, "root-"+pad)
	if err := copyStd(repo, root); err != nil {
		die("%v", err)
	}
	tools := opt.Extra["tools_permuted"]
	cwd, pattern := root, "std/..."
	switch fromSub {
	case 1:
		cwd = filepath.Join(root, "std")
	case 2:
		cwd = filepath.Join(root, "std", "gif")
	}
	desc := fmt.Sprintf("env_seed=%d GOMAXPROCS=%s root-depth=%d root-name-len=%d cwd=%s extra-env=%v", envSeed, procs, depth, len(pad)+5, strings.TrimPrefix(cwd, root), extraEnv)
	o.Sample = desc
	if opt.Verbose {
		o.Tracef("%s", desc)
	}
	cmd := exec.Command(filepath.Join(tools, "wuffs"), "gen", pattern)
	cmd.Dir = cwd
	env := []string{"PATH=" + tools + ":" + os.Getenv("PATH"), fmt.Sprintf("VERIF_ENV_SEED=%d", envSeed), "GOMAXPROCS=" + procs, "HOME=" + os.Getenv("HOME")}
	cmd.Env = append(env, extraEnv...)
	var out bytes.Buffer
	cmd.Stdout, cmd.Stderr = &out, &out
	if err := cmd.Run(); err != nil {
		// The same sources compile with the reference tools: a failure that
		// depends on iteration order is an order dependence too.
		tail := out.String()
		if len(tail) > 1500 {
			tail = tail[len(tail)-1500:]
		}
		o.Fail("compile_outcome_depends_on_order", "", "`wuffs gen std/...` failed under %s although it succeeds with the reference tools: %v\n%s", desc, err, tail)
		o.Nontrivial = true
		return o
	}
	got, err := hashTree(root, "gen", "release")
	if err != nil {
		die("%v", err)
	}
	fp := sim.NewFP()
	fp.AddStr(desc)
	o.FP = fp.Sum()
	o.Nontrivial = true
	o.Steps = int64(len(got))
	o.ProbeN("artefacts_hashed", int64(len(got)))
	o.Probe("gomaxprocs_" + procs)
	o.Fault("map_and_readdir_order_permuted")
	var names []string
	for n := range ref {
		names = append(names, n)
	}
	sort.Strings(names)
	for _, n := range names {
		g, ok := got[n]
		if !ok {
			o.Fail("artefact_missing", "artefact_missing:"+n, "%s was not generated under %s", n, desc)
			return o
		}
		if g != ref[n] {
			o.Fail("output_depends_on_order", "output_depends_on_order:"+n, "%s differs from the reference (sha256 %s vs %s) under %s", n, g[:16], ref[n][:16], desc)
			return o
		}
	}
	for n := range got {
		if _, ok := ref[n]; !ok {
			o.Fail("artefact_extra", "artefact_extra:"+n, "%s was generated under %s but not by the reference run", n, desc)
			return o
		}
	}
	return o
}

// runCommitted: the reference output (un-rewritten tools, working tree's std/)
// must equal the committed release, and lang/check/gen.go's output must equal
// the committed lang/check/data.go.
func runCommitted(t *sim.Tape, opt sim.RunOpt, o *sim.Outcome, ref map[string]string) *sim.Outcome {
	repo := opt.Extra["repo"]
	o.Nontrivial = true
	o.Sample = "generated == committed: release/c/wuffs-unsupported-snapshot.c and lang/check/data.go"
	which := t.Draw(2)
	fp := sim.NewFP()
	fp.AddStr(fmt.Sprintf("committed-%d", which))
	o.FP = fp.Sum()
	if which == 0 {
		b, err := os.ReadFile(filepath.Join(repo, "release", "c", "wuffs-unsupported-snapshot.c"))
		if err != nil {
			o.Fail("committed_release_missing", "", "%v", err)
			return o
		}
		s := sha256.Sum256(b)
		o.Probe("committed_release_compared")
		if h := hex.EncodeToString(s[:]); h != ref["release/c/wuffs-unsupported-snapshot.c"] {
			o.Fail("release_differs_from_generated", "", "release/c/wuffs-unsupported-snapshot.c in the repository (sha256 %s) is not what `wuffs gen std/...` produces from the repository's std/ with the repository's compiler (sha256 %s)", h[:16], ref["release/c/wuffs-unsupported-snapshot.c"][:16])
		}
		return o
	}
	dir, err := os.MkdirTemp(opt.Extra["scratch"], "axioms-")
	if err != nil {
		die("%v", err)
	}
	defer os.RemoveAll(dir)
	for _, f := range []string{"gen.go", "axioms.md"} {
		b, err := os.ReadFile(filepath.Join(repo, "lang", "check", f))
		if err != nil {
			o.Fail("axiom_generator_missing", "", "%v", err)
			return o
		}
		os.WriteFile(filepath.Join(dir, f), b, 0o644)
	}
	cmd := exec.Command("go", "run", "gen.go")
	cmd.Dir = dir
	cmd.Env = append(os.Environ(), "GOFLAGS=", "GO111MODULE=off", "GOTOOLCHAIN=local", "GOPROXY=off")
	if out, err := cmd.CombinedOutput(); err != nil {
		die("go run gen.go: %v\n%s", err, out)
	}
	got, err := os.ReadFile(filepath.Join(dir, "data.go"))
	if err != nil {
		die("gen.go wrote no data.go: %v", err)
	}
	want, _ := os.ReadFile(filepath.Join(repo, "lang", "check", "data.go"))
	o.Probe("axiom_table_compared")
	if !bytes.Equal(got, want) {
		o.Fail("axiom_table_differs_from_generated", "", "lang/check/data.go is not what lang/check/gen.go generates from lang/check/axioms.md (%d vs %d bytes)", len(want), len(got))
	}
	return o
}
