package racx

// The harness's stub codec: a Long Codec ("verifID") whose compressed form is
//
//	u32le header: bits 0..29 payload length, bit 30 "XORed with the secondary
//	resource", bit 31 "XORed with the tertiary resource"; then the payload.
//
// It exists so that the RAC container logic (chunking, zero elision, cutting,
// resources, index construction, long-codec elements) can be driven thousands
// of times per second without paying for a real compressor, and so that the
// tertiary-resource path of the writer is exercised at all (no shipped codec
// uses it). Resources use the spec's Common Dictionary Format.

import (
	"bytes"
	"errors"
	"hash/crc32"
	"io"

	"github.com/google/wuffs/lib/rac"
)

const StubRacCodec = rac.Codec(0x8000000000000000 | StubCodecID)

func WrapDict(raw []byte) []byte {
	w := make([]byte, len(raw)+8)
	w[0], w[1], w[2], w[3] = byte(len(raw)), byte(len(raw)>>8), byte(len(raw)>>16), byte(len(raw)>>24)
	copy(w[4:], raw)
	c := crc32.ChecksumIEEE(raw)
	n := len(w)
	w[n-4], w[n-3], w[n-2], w[n-1] = byte(c), byte(c>>8), byte(c>>16), byte(c>>24)
	return w
}

func stubXor(data []byte, sec, ter []byte) {
	for i := range data {
		if len(sec) > 0 {
			data[i] ^= sec[i%len(sec)]
		}
		if len(ter) > 0 {
			data[i] ^= ter[i%len(ter)] + 1
		}
	}
}

// StubDecode decodes one leaf given the whole file and its three CRanges.
func StubDecode(file []byte, p, s, t SpecRange) ([]byte, error) {
	if p.Size() < 4 {
		return nil, errors.New("primary range shorter than the header")
	}
	b := file[p.Lo:p.Hi]
	h := uint32(b[0]) | uint32(b[1])<<8 | uint32(b[2])<<16 | uint32(b[3])<<24
	n := int64(h & 0x3FFFFFFF)
	if 4+n > p.Size() {
		return nil, errors.New("payload longer than the primary range")
	}
	out := append([]byte(nil), b[4:4+n]...)
	var sec, ter []byte
	var err error
	if h&(1<<30) != 0 {
		if sec, err = LoadSpecDict(file, s); err != nil || len(sec) == 0 {
			return nil, errors.New("secondary resource missing or damaged")
		}
	}
	if h&(1<<31) != 0 {
		if ter, err = LoadSpecDict(file, t); err != nil || len(ter) == 0 {
			return nil, errors.New("tertiary resource missing or damaged")
		}
	}
	stubXor(out, sec, ter)
	return out, nil
}

type StubWriter struct {
	buf []byte
	// UseTertiary lets a run enable the tertiary slot.
	UseTertiary   bool
	CompressErrAt int // fail the n-th Compress call (1-based); 0 = never
	calls         int
}

func (w *StubWriter) Close() error                            { return nil }
func (w *StubWriter) Clone() rac.CodecWriter                  { return &StubWriter{UseTertiary: w.UseTertiary} }
func (w *StubWriter) CanCut() bool                            { return true }
func (w *StubWriter) WrapResource(raw []byte) ([]byte, error) { return WrapDict(raw), nil }

func (w *StubWriter) Compress(p []byte, q []byte, res [][]byte) (rac.Codec, []byte, int, int, error) {
	w.calls++
	if w.CompressErrAt != 0 && w.calls == w.CompressErrAt {
		return 0, nil, 0, 0, errors.New("stub: injected Compress failure")
	}
	n := len(p) + len(q)
	w.buf = append(w.buf[:0], 0, 0, 0, 0)
	w.buf = append(w.buf, p...)
	w.buf = append(w.buf, q...)
	sec, ter := rac.NoResourceUsed, rac.NoResourceUsed
	h := uint32(n)
	if len(res) > 0 && n > 0 {
		// Content-determined choice, so that a re-compression of the same
		// bytes (the CChunkSize search) picks the same resources.
		c := crc32.ChecksumIEEE(w.buf[4:])
		if k := int(c % uint32(len(res)+1)); k < len(res) && len(res[k]) > 0 {
			sec = k
			h |= 1 << 30
		}
		if w.UseTertiary {
			if k := int((c >> 8) % uint32(len(res)+1)); k < len(res) && len(res[k]) > 0 {
				ter = k
				h |= 1 << 31
			}
		}
		var s, t []byte
		if sec >= 0 {
			s = res[sec]
		}
		if ter >= 0 {
			t = res[ter]
		}
		stubXor(w.buf[4:], s, t)
	}
	w.buf[0], w.buf[1], w.buf[2], w.buf[3] = byte(h), byte(h>>8), byte(h>>16), byte(h>>24)
	return StubRacCodec, w.buf, sec, ter, nil
}

func (w *StubWriter) Cut(codec rac.Codec, encoded []byte, maxEncodedLen int) (int, int, error) {
	if codec != StubRacCodec || len(encoded) < 4 {
		return 0, 0, errors.New("stub: bad Cut input")
	}
	if maxEncodedLen < 4 {
		return 0, 0, errors.New("stub: maxEncodedLen is too small")
	}
	h := uint32(encoded[0]) | uint32(encoded[1])<<8 | uint32(encoded[2])<<16 | uint32(encoded[3])<<24
	n := int(h & 0x3FFFFFFF)
	if n > maxEncodedLen-4 {
		n = maxEncodedLen - 4
	}
	h = (h &^ 0x3FFFFFFF) | uint32(n)
	encoded[0], encoded[1], encoded[2], encoded[3] = byte(h), byte(h>>8), byte(h>>16), byte(h>>24)
	return 4 + n, n, nil
}

type StubReader struct{}

func (r *StubReader) Close() error             { return nil }
func (r *StubReader) Accepts(c rac.Codec) bool { return c == StubRacCodec }
func (r *StubReader) Clone() rac.CodecReader   { return &StubReader{} }

func readRange(rs io.ReadSeeker, r rac.Range) ([]byte, error) {
	if r[1] < r[0] || r.Size() > 1<<24 {
		return nil, errors.New("stub: unreasonable range")
	}
	if _, err := rs.Seek(r[0], io.SeekStart); err != nil {
		return nil, err
	}
	b := make([]byte, r.Size())
	n, err := io.ReadFull(rs, b)
	if err == io.ErrUnexpectedEOF || err == io.EOF {
		err = nil
	}
	return b[:n], err
}

func (r *StubReader) MakeDecompressor(rs io.ReadSeeker, c rac.Chunk) (io.Reader, error) {
	// Assemble a private miniature "file" holding the three ranges and decode
	// it with the same function the spec-side decoder uses.
	p, err := readRange(rs, c.CPrimary)
	if err != nil {
		return nil, err
	}
	file := append([]byte(nil), p...)
	pr := SpecRange{0, int64(len(p))}
	sr, tr := SpecRange{}, SpecRange{}
	if !c.CSecondary.Empty() {
		s, err := readRange(rs, c.CSecondary)
		if err != nil {
			return nil, err
		}
		sr = SpecRange{int64(len(file)), int64(len(file) + len(s))}
		file = append(file, s...)
	}
	if !c.CTertiary.Empty() {
		t, err := readRange(rs, c.CTertiary)
		if err != nil {
			return nil, err
		}
		tr = SpecRange{int64(len(file)), int64(len(file) + len(t))}
		file = append(file, t...)
	}
	out, err := StubDecode(file, pr, sr, tr)
	if err != nil {
		return nil, err
	}
	return bytes.NewReader(out), nil
}
