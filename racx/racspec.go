package racx

// An independent structural validator and decoder for RAC files, written from
// doc/spec/rac-spec.md. It shares no code with lib/rac: own little-endian
// readers, own checksum call, own tree walk. Used as the C13 oracle (a file the
// Writer reports as successfully written must be accepted here and decode to
// the original payload) and as the reference for which hostile files are
// spec-legal in C15.

import (
	"bytes"
	"compress/zlib"
	"errors"
	"fmt"
	"hash/crc32"
	"io"
	"os"
	"os/exec"
	"strings"
)

type SpecRange struct{ Lo, Hi int64 }

func (r SpecRange) Size() int64 { return r.Hi - r.Lo }

type SpecCodec struct {
	Long bool
	ID   uint64 // short: low 6 bits of the codec byte; long: the 7 bytes, little-endian
}

type SpecLeaf struct {
	D          SpecRange
	P, S, T    SpecRange
	STag, TTag uint8
	Codec      SpecCodec
	Depth      int
}

type SpecFile struct {
	DSize       int64
	RootAtStart bool
	RootOff     int64
	Leaves      []SpecLeaf
	Nodes       int
	MaxDepth    int
}

func U48(b []byte) int64 {
	return int64(uint64(b[0]) | uint64(b[1])<<8 | uint64(b[2])<<16 | uint64(b[3])<<24 | uint64(b[4])<<32 | uint64(b[5])<<40)
}

type specNode struct {
	off   int64
	arity int
	b     []byte
}

func (n *specNode) dptr(i int) int64 {
	if i == 0 {
		return 0
	}
	return U48(n.b[8*i:])
}
func (n *specNode) ttag(i int) uint8 { return n.b[8*i+7] }
func (n *specNode) codecByte() uint8 { return n.b[8*n.arity+7] }
func (n *specNode) cptr(i int) int64 { return U48(n.b[8*n.arity+8+8*i:]) }
func (n *specNode) clen(i int) uint8 { return n.b[8*n.arity+8+8*i+6] }
func (n *specNode) stag(i int) uint8 { return n.b[8*n.arity+8+8*i+7] }
func (n *specNode) cptrMax() int64   { return n.cptr(n.arity) }
func (n *specNode) dptrMax() int64   { return n.dptr(n.arity) }
func (n *specNode) version() uint8   { return n.b[16*n.arity+8+6] }
func (n *specNode) mixBit() bool     { return n.codecByte()&0x40 != 0 }
func (n *specNode) codec() (SpecCodec, error) {
	cb := n.codecByte()
	if cb&0x80 == 0 {
		return SpecCodec{false, uint64(cb & 0x3F)}, nil
	}
	c64 := int(cb & 0x3F)
	for j := 0; j < 4; j++ {
		i := c64 + 64*j
		if i < n.arity && n.ttag(i) == 0xFD {
			p := n.b[8*n.arity+8+8*i:]
			id := uint64(p[0]) | uint64(p[1])<<8 | uint64(p[2])<<16 | uint64(p[3])<<24 | uint64(p[4])<<32 | uint64(p[5])<<40 | uint64(p[6])<<48
			return SpecCodec{true, id}, nil
		}
	}
	return SpecCodec{}, errors.New("long codec without a 0xFD element")
}

// parseNode applies the "Branch Node Validation" section to the bytes at off.
func parseNode(file []byte, off int64) (*specNode, error) {
	if off < 0 || off+4 > int64(len(file)) {
		return nil, fmt.Errorf("node at %d: outside file", off)
	}
	if file[off] != 0x72 || file[off+1] != 0xC3 || file[off+2] != 0x63 {
		return nil, fmt.Errorf("node at %d: bad magic", off)
	}
	arity := int(file[off+3])
	if arity == 0 {
		return nil, fmt.Errorf("node at %d: zero arity", off)
	}
	size := int64(arity*16 + 16)
	if off+size > int64(len(file)) {
		return nil, fmt.Errorf("node at %d: arity %d does not fit", off, arity)
	}
	n := &specNode{off: off, arity: arity, b: file[off : off+size]}
	if n.b[size-1] != uint8(arity) {
		return nil, fmt.Errorf("node at %d: arity bytes differ", off)
	}
	sum := crc32.ChecksumIEEE(n.b[6:])
	sum16 := uint16(sum) ^ uint16(sum>>16)
	if n.b[4] != uint8(sum16) || n.b[5] != uint8(sum16>>8) {
		return nil, fmt.Errorf("node at %d: checksum mismatch", off)
	}
	if n.version() != 1 {
		return nil, fmt.Errorf("node at %d: version %d", off, n.version())
	}
	children := 0
	for i := 0; i <= arity; i++ {
		if n.b[8*i+6] != 0 {
			return nil, fmt.Errorf("node at %d: reserved byte %d non-zero", off, i)
		}
	}
	for i := 0; i < arity; i++ {
		t := n.ttag(i)
		if t >= 0xC0 && t < 0xFD {
			return nil, fmt.Errorf("node at %d: reserved TTag %#x", off, t)
		}
		if t != 0xFD {
			children++
		}
		if n.dptr(i) > n.dptr(i+1) {
			return nil, fmt.Errorf("node at %d: DPtr not sorted at %d", off, i)
		}
		if t == 0xFD && n.dptr(i) != n.dptr(i+1) {
			return nil, fmt.Errorf("node at %d: codec element %d has a non-empty DRange", off, i)
		}
		if t != 0xFD && n.cptr(i) > n.cptrMax() {
			return nil, fmt.Errorf("node at %d: CPtr[%d] exceeds CPtrMax", off, i)
		}
	}
	if children == 0 {
		return nil, fmt.Errorf("node at %d: no children", off)
	}
	c, err := n.codec()
	if err != nil {
		return nil, fmt.Errorf("node at %d: %v", off, err)
	}
	if !c.Long && c.ID > 3 {
		return nil, fmt.Errorf("node at %d: reserved short codec %d", off, c.ID)
	}
	return n, nil
}

// findRoot applies the "Root Node" section.
func findRoot(file []byte) (*specNode, bool, error) {
	if len(file) < 32 {
		return nil, false, errors.New("file shorter than 32 bytes")
	}
	if file[0] != 0x72 || file[1] != 0xC3 || file[2] != 0x63 {
		return nil, false, errors.New("missing magic")
	}
	if a := int(file[3]); a != 0 && a*16+16 <= len(file) {
		if n, err := parseNode(file, 0); err == nil && n.cptrMax() == int64(len(file)) {
			return n, true, nil
		}
	}
	a := int(file[len(file)-1])
	if a == 0 || a*16+16 > len(file) {
		return nil, false, errors.New("no root node at either end")
	}
	off := int64(len(file) - (a*16 + 16))
	n, err := parseNode(file, off)
	if err != nil {
		return nil, false, fmt.Errorf("root at end: %v", err)
	}
	if n.cptrMax() != int64(len(file)) {
		return nil, false, errors.New("root at end: CPtrMax != CFileSize")
	}
	return n, false, nil
}

func makeCRange(n *specNode, cbias int64, i int) SpecRange {
	max := cbias + n.cptrMax()
	if i >= n.arity {
		return SpecRange{max, max}
	}
	lo := cbias + n.cptr(i)
	hi := max
	if l := int64(n.clen(i)); l != 0 && lo+l*1024 < hi {
		hi = lo + l*1024
	}
	return SpecRange{lo, hi}
}

// ValidateRAC walks the whole tree depth first, validating every branch node
// and every parent/child pair, and returns the non-empty leaves in DSpace
// order. maxNodes bounds the walk (hostile files).
func ValidateRAC(file []byte, maxNodes int) (*SpecFile, error) {
	root, atStart, err := findRoot(file)
	if err != nil {
		return nil, err
	}
	sf := &SpecFile{DSize: root.dptrMax(), RootAtStart: atStart, RootOff: root.off}
	var walk func(n *specNode, cbias, dbias int64, depth int) error
	walk = func(n *specNode, cbias, dbias int64, depth int) error {
		sf.Nodes++
		if sf.Nodes > maxNodes {
			return errors.New("too many nodes visited")
		}
		if depth > sf.MaxDepth {
			sf.MaxDepth = depth
		}
		pc, _ := n.codec()
		coffMax := cbias + n.cptrMax()
		for a := 0; a < n.arity; a++ {
			t := n.ttag(a)
			if t == 0xFD {
				continue
			}
			d := SpecRange{dbias + n.dptr(a), dbias + n.dptr(a+1)}
			if d.Size() == 0 {
				continue // empty elements are skipped, even branch nodes
			}
			if t == 0xFE {
				coff := cbias + n.cptr(a)
				rem := coffMax - coff
				if rem < 4 {
					return fmt.Errorf("node at %d child %d: CRemaining < 4", n.off, a)
				}
				if coff+4 > int64(len(file)) {
					return fmt.Errorf("node at %d child %d: outside file", n.off, a)
				}
				if ca := int64(file[coff+3]); rem < ca*16+16 {
					return fmt.Errorf("node at %d child %d: child does not fit below COffMax", n.off, a)
				}
				c, err := parseNode(file, coff)
				if err != nil {
					return fmt.Errorf("node at %d child %d: %v", n.off, a, err)
				}
				ccbias := cbias
				if st := int(n.stag(a)); st < n.arity {
					ccbias = cbias + n.cptr(st)
				}
				cc, _ := c.codec()
				if !n.mixBit() && cc != pc {
					return fmt.Errorf("node at %d child %d: codec differs without mix bit", n.off, a)
				}
				if c.version() > n.version() {
					return fmt.Errorf("node at %d child %d: version exceeds parent's", n.off, a)
				}
				if ccbias+c.cptrMax() > coffMax {
					return fmt.Errorf("node at %d child %d: COffMax exceeds parent's", n.off, a)
				}
				if c.dptrMax() != d.Size() {
					return fmt.Errorf("node at %d child %d: DPtrMax %d != slot size %d", n.off, a, c.dptrMax(), d.Size())
				}
				if !(c.off < n.off || c.dptrMax() < n.dptrMax()) {
					return fmt.Errorf("node at %d child %d: anti-loop rule violated", n.off, a)
				}
				if err := walk(c, ccbias, d.Lo, depth+1); err != nil {
					return err
				}
				continue
			}
			lf := SpecLeaf{D: d, P: makeCRange(n, cbias, a), S: makeCRange(n, cbias, int(n.stag(a))),
				T: makeCRange(n, cbias, int(t)), STag: n.stag(a), TTag: t, Codec: pc, Depth: depth}
			for _, r := range []SpecRange{lf.P, lf.S, lf.T} {
				if r.Lo > r.Hi || r.Lo < 0 || r.Hi > int64(len(file)) {
					return fmt.Errorf("node at %d leaf %d: CRange [%d,%d) malformed or outside the file", n.off, a, r.Lo, r.Hi)
				}
			}
			sf.Leaves = append(sf.Leaves, lf)
		}
		return nil
	}
	if err := walk(root, 0, 0, 0); err != nil {
		return sf, err
	}
	pos := int64(0)
	for i, l := range sf.Leaves {
		if l.D.Lo != pos {
			return sf, fmt.Errorf("leaf %d: DRange starts at %d, expected %d", i, l.D.Lo, pos)
		}
		pos = l.D.Hi
	}
	if pos != sf.DSize {
		return sf, fmt.Errorf("leaves end at %d, DFileSize %d", pos, sf.DSize)
	}
	return sf, nil
}

// StubCodecID is the Long Codec of the harness's identity codec: the 7 bytes
// "verifID".
const StubCodecID = uint64('v') | uint64('e')<<8 | uint64('r')<<16 | uint64('i')<<24 | uint64('f')<<32 | uint64('I')<<40 | uint64('D')<<48

// LoadSpecDict parses the "Common Dictionary Format".
func LoadSpecDict(file []byte, r SpecRange) ([]byte, error) {
	if r.Size() == 0 {
		return nil, nil
	}
	if r.Size() < 8 {
		return nil, errors.New("dictionary range shorter than 8 bytes")
	}
	b := file[r.Lo:r.Hi]
	n := int64(uint32(b[0]) | uint32(b[1])<<8 | uint32(b[2])<<16 | uint32(b[3])<<24)
	if n>>30 != 0 {
		return nil, errors.New("dictionary length reserved bits set")
	}
	if n+8 > r.Size() {
		return nil, errors.New("dictionary longer than its range")
	}
	d := b[4 : 4+n]
	c := b[4+n:]
	if crc32.ChecksumIEEE(d) != uint32(c[0])|uint32(c[1])<<8|uint32(c[2])<<16|uint32(c[3])<<24 {
		return nil, errors.New("dictionary checksum mismatch")
	}
	return d, nil
}

// DecodeSpec reconstructs the DFile of a validated file for the codecs the
// harness can decode independently (Zeroes, Zlib via compress/zlib, the stub).
// ok is false when some leaf uses another codec (LZ4, Zstandard).
func DecodeSpec(file []byte, sf *SpecFile) (out []byte, ok bool, err error) {
	out = make([]byte, 0, sf.DSize)
	for i, l := range sf.Leaves {
		want := l.D.Size()
		var got []byte
		switch {
		case !l.Codec.Long && l.Codec.ID == 0, l.Codec.Long && l.Codec.ID == 0:
			// RAC + Zeroes.
		case !l.Codec.Long && l.Codec.ID == 1:
			if l.S.Size() != 0 && l.TTag != 0xFF {
				return nil, true, fmt.Errorf("leaf %d: dictionary leaf with TTag %#x", i, l.TTag)
			}
			dict, derr := LoadSpecDict(file, l.S)
			if derr != nil {
				return nil, true, fmt.Errorf("leaf %d: %v", i, derr)
			}
			zr, zerr := zlib.NewReaderDict(bytes.NewReader(file[l.P.Lo:l.P.Hi]), dict)
			if zerr != nil {
				return nil, true, fmt.Errorf("leaf %d: zlib: %v", i, zerr)
			}
			got, zerr = io.ReadAll(io.LimitReader(zr, want+1))
			if zerr != nil {
				return nil, true, fmt.Errorf("leaf %d: zlib: %v", i, zerr)
			}
		case l.Codec.Long && l.Codec.ID == StubCodecID:
			var serr error
			got, serr = StubDecode(file, l.P, l.S, l.T)
			if serr != nil {
				return nil, true, fmt.Errorf("leaf %d: stub: %v", i, serr)
			}
		default:
			return nil, false, nil
		}
		if int64(len(got)) > want {
			return nil, true, fmt.Errorf("leaf %d: codec produced more than the DRange size %d", i, want)
		}
		out = append(out, got...)
		out = append(out, make([]byte, want-int64(len(got)))...)
	}
	return out, true, nil
}

// ---- sampled independent decode of LZ4 / Zstandard leaves (C13) ----

// ExternalDecodeLeaf decompresses one Zstandard leaf of a validated file with
// the system `zstd` command-line tool (an implementation lib/rac does not link).
// supported is false when the leaf's codec is another one, when the tool is not
// installed, or when the leaf needs something the tool cannot be given (an LZ4
// dictionary).
func ExternalDecodeLeaf(file []byte, l SpecLeaf, scratchDir string) (out []byte, supported bool, err error) {
	// Zstandard only: the specification's "RAC + LZ4" section is "TODO", so
	// there is no stated chunk format to hold an LZ4 leaf to (a first version
	// of this check piped LZ4 leaves through `lz4 -d` and raised two alarms
	// that were its own).
	if l.Codec.Long || l.Codec.ID != 3 {
		return nil, false, nil
	}
	tool := "zstd"
	path, lerr := exec.LookPath(tool)
	if lerr != nil {
		return nil, false, nil
	}
	args := []string{"-d", "-c"}
	if l.S.Size() != 0 {
		dict, derr := LoadSpecDict(file, l.S)
		if derr != nil {
			return nil, true, fmt.Errorf("dictionary: %v", derr)
		}
		f, ferr := os.CreateTemp(scratchDir, "zdict-")
		if ferr != nil {
			return nil, false, nil
		}
		defer os.Remove(f.Name())
		f.Write(dict)
		f.Close()
		args = append(args, "-D", f.Name())
	}
	// A Primary CRange may extend beyond the chunk's own frame (CLen counts
	// 1024-byte units): the next chunk's frame or index bytes may follow. The
	// tool gets exactly the first frame, whose extent the block headers give.
	n, ok := zstdFirstFrameLen(file[l.P.Lo:l.P.Hi])
	if !ok {
		return nil, true, fmt.Errorf("the Primary CRange does not start with a complete Zstandard frame")
	}
	cmd := exec.Command(path, args...)
	cmd.Stdin = bytes.NewReader(file[l.P.Lo : l.P.Lo+int64(n)])
	var so, se bytes.Buffer
	cmd.Stdout, cmd.Stderr = &so, &se
	if rerr := cmd.Run(); rerr != nil {
		return nil, true, fmt.Errorf("%s -d failed on the %d-byte frame: %v: %s", tool, n, rerr, strings.TrimSpace(se.String()))
	}
	return so.Bytes(), true, nil
}

// zstdFirstFrameLen returns the length in bytes of the Zstandard frame at the
// start of b (RFC 8478 section 3.1.1), walking the block headers.
func zstdFirstFrameLen(b []byte) (int, bool) {
	if len(b) < 5 || b[0] != 0x28 || b[1] != 0xB5 || b[2] != 0x2F || b[3] != 0xFD {
		return 0, false
	}
	fhd := b[4]
	fcsFlag, single, checksum, didFlag := fhd>>6, fhd&0x20 != 0, fhd&0x04 != 0, fhd&0x03
	p := 5
	if !single {
		p++ // Window_Descriptor
	}
	p += []int{0, 1, 2, 4}[didFlag]
	switch fcsFlag {
	case 0:
		if single {
			p++
		}
	case 1:
		p += 2
	case 2:
		p += 4
	default:
		p += 8
	}
	for {
		if p+3 > len(b) {
			return 0, false
		}
		h := uint32(b[p]) | uint32(b[p+1])<<8 | uint32(b[p+2])<<16
		p += 3
		last, typ, size := h&1 != 0, (h>>1)&3, int(h>>3)
		switch typ {
		case 0, 2:
			p += size
		case 1:
			p++
		default:
			return 0, false
		}
		if p > len(b) {
			return 0, false
		}
		if last {
			break
		}
	}
	if checksum {
		p += 4
	}
	if p > len(b) {
		return 0, false
	}
	return p, true
}
