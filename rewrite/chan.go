// Package rewrite holds the check-time source rewriters: they read files of
// /repo's current working tree, never write there, and produce replacement
// files for `go build -overlay`.
//
// RewriteChannels turns native goroutine/channel constructs into calls to the
// simrt runtime (engine A, C14). The rewrite is type-driven: every construct
// is recognised by the go/types type of its operands, so a channel hidden
// behind a named type, a struct field or a function result is still found, and
// a new channel operation introduced by an edit to /repo is rewritten without
// touching the harness.
package rewrite

import (
	"bytes"
	"fmt"
	"go/ast"
	"go/format"
	"go/token"
	"go/types"
	"os"
	"path/filepath"
	"sort"
	"strings"

	"golang.org/x/tools/go/ast/astutil"
	"golang.org/x/tools/go/packages"
)

const SimrtImport = "github.com/google/wuffs/lib/simrt"

// ChanStats counts what was rewritten (written into evidence).
type ChanStats struct {
	Files       []string
	ChanTypes   int
	Makes       int
	Sends       int
	Recvs       int
	Selects     int
	Closes      int
	LenCaps     int
	GoStmts     int
	Unsupported []string // constructs that force native mode
}

func (s ChanStats) String() string {
	return fmt.Sprintf("files=%v chan-types=%d make=%d send=%d recv=%d select=%d close=%d len/cap=%d go=%d unsupported=%v",
		s.Files, s.ChanTypes, s.Makes, s.Sends, s.Recvs, s.Selects, s.Closes, s.LenCaps, s.GoStmts, s.Unsupported)
}

func loadPackage(dir string, env []string, pattern string, buildFlags []string) (*packages.Package, error) {
	cfg := &packages.Config{
		Mode: packages.NeedName | packages.NeedFiles | packages.NeedCompiledGoFiles | packages.NeedSyntax |
			packages.NeedTypes | packages.NeedTypesInfo | packages.NeedImports | packages.NeedDeps,
		Dir:        dir,
		Env:        env,
		BuildFlags: buildFlags,
	}
	pkgs, err := packages.Load(cfg, pattern)
	if err != nil {
		return nil, err
	}
	if len(pkgs) != 1 {
		return nil, fmt.Errorf("expected one package for %s, got %d", pattern, len(pkgs))
	}
	p := pkgs[0]
	if len(p.Errors) > 0 {
		return nil, fmt.Errorf("package %s does not type-check: %v", pattern, p.Errors[0])
	}
	return p, nil
}

func sel(pkg, name string) *ast.SelectorExpr {
	return &ast.SelectorExpr{X: ast.NewIdent(pkg), Sel: ast.NewIdent(name)}
}

func call(fun ast.Expr, args ...ast.Expr) *ast.CallExpr {
	return &ast.CallExpr{Fun: fun, Args: args}
}

func strLit(s string) *ast.BasicLit {
	return &ast.BasicLit{Kind: token.STRING, Value: fmt.Sprintf("%q", s)}
}

func intLit(n int) *ast.BasicLit {
	return &ast.BasicLit{Kind: token.INT, Value: fmt.Sprint(n)}
}

func isChan(t types.Type) (*types.Chan, bool) {
	if t == nil {
		return nil, false
	}
	c, ok := t.Underlying().(*types.Chan)
	return c, ok
}

// RewriteChannels rewrites package `pattern` (an import path), loaded from
// module directory modDir. It returns the new contents keyed by absolute file
// name for every file that contained a construct.
func RewriteChannels(modDir string, env []string, pattern string) (map[string][]byte, ChanStats, error) {
	var st ChanStats
	pkg, err := loadPackage(modDir, env, pattern, nil)
	if err != nil {
		return nil, st, err
	}
	info := pkg.TypesInfo
	out := map[string][]byte{}
	for fi, file := range pkg.Syntax {
		fname := pkg.CompiledGoFiles[fi]
		if !strings.HasSuffix(fname, ".go") {
			continue
		}
		rw := &chanRewriter{pkg: pkg, info: info, fset: pkg.Fset, file: file, st: &st,
			elem: map[ast.Node]string{}, skip: map[ast.Node]bool{}, chanArg: map[*ast.CallExpr]bool{},
			makeName: map[*ast.CallExpr]string{}, twoValue: map[ast.Node]bool{}, needImports: map[string]string{}}
		changed := rw.run()
		if rw.err != nil {
			return nil, st, fmt.Errorf("%s: %v", fname, rw.err)
		}
		if !changed {
			continue
		}
		for _, imp := range file.Imports {
			p := strings.Trim(imp.Path.Value, `"`)
			switch p {
			case "sync", "sync/atomic", "time", "context", "reflect":
				st.Unsupported = append(st.Unsupported, fmt.Sprintf("%s imports %q (not modelled by simrt)", filepath.Base(fname), p))
			}
		}
		astutil.AddImport(pkg.Fset, file, SimrtImport)
		for path, name := range rw.needImports {
			_ = name
			astutil.AddImport(pkg.Fset, file, path)
		}
		var buf bytes.Buffer
		if err := format.Node(&buf, pkg.Fset, file); err != nil {
			return nil, st, fmt.Errorf("%s: printing: %v", fname, err)
		}
		hdr := "// Code generated at check time by /verif/rewrite from the working tree; DO NOT EDIT.\n"
		out[fname] = append([]byte(hdr), buf.Bytes()...)
		st.Files = append(st.Files, filepath.Base(fname))
	}
	sort.Strings(st.Files)
	return out, st, nil
}

type chanRewriter struct {
	pkg         *packages.Package
	info        *types.Info
	fset        *token.FileSet
	file        *ast.File
	st          *ChanStats
	elem        map[ast.Node]string // recv expr / range / comm recv -> element type text
	skip        map[ast.Node]bool   // nodes handled by an enclosing rewrite
	chanArg     map[*ast.CallExpr]bool
	makeName    map[*ast.CallExpr]string
	twoValue    map[ast.Node]bool
	needImports map[string]string
	changed     bool
	err         error
	tmp         int
}

func (r *chanRewriter) fail(n ast.Node, format string, a ...interface{}) {
	if r.err == nil {
		r.err = fmt.Errorf("%s: %s", r.fset.Position(n.Pos()), fmt.Sprintf(format, a...))
	}
}

func (r *chanRewriter) typeText(t types.Type) string {
	return types.TypeString(t, func(p *types.Package) string {
		if p == r.pkg.Types {
			return ""
		}
		r.needImports[p.Path()] = p.Name()
		return p.Name()
	})
}

func lastName(e ast.Expr) string {
	switch x := e.(type) {
	case *ast.Ident:
		return x.Name
	case *ast.SelectorExpr:
		return x.Sel.Name
	case *ast.IndexExpr:
		return lastName(x.X) + "[]"
	case *ast.StarExpr:
		return lastName(x.X)
	}
	return ""
}

func (r *chanRewriter) isBuiltin(id *ast.Ident, name string) bool {
	if id.Name != name {
		return false
	}
	_, ok := r.info.Uses[id].(*types.Builtin)
	return ok
}

// pre records everything that needs the original (typed) nodes.
func (r *chanRewriter) pre(c *astutil.Cursor) bool {
	switch n := c.Node().(type) {
	case *ast.UnaryExpr:
		if n.Op == token.ARROW {
			if ch, ok := isChan(r.info.TypeOf(n.X)); ok {
				r.elem[n] = r.typeText(ch.Elem())
			} else {
				r.fail(n, "receive from a non-channel type?")
			}
		}
	case *ast.AssignStmt:
		if len(n.Rhs) == 1 && len(n.Lhs) == 2 {
			if u, ok := ast.Unparen(n.Rhs[0]).(*ast.UnaryExpr); ok && u.Op == token.ARROW {
				r.twoValue[u] = true
			}
		}
		if len(n.Lhs) == len(n.Rhs) {
			for i, rhs := range n.Rhs {
				if ce, ok := rhs.(*ast.CallExpr); ok {
					r.makeName[ce] = lastName(n.Lhs[i])
				}
			}
		}
	case *ast.ValueSpec:
		if len(n.Values) == 1 && len(n.Names) == 2 {
			if u, ok := ast.Unparen(n.Values[0]).(*ast.UnaryExpr); ok && u.Op == token.ARROW {
				r.twoValue[u] = true
			}
		}
		if len(n.Names) == len(n.Values) {
			for i, v := range n.Values {
				if ce, ok := v.(*ast.CallExpr); ok {
					r.makeName[ce] = n.Names[i].Name
				}
			}
		}
	case *ast.KeyValueExpr:
		if ce, ok := n.Value.(*ast.CallExpr); ok {
			r.makeName[ce] = lastName(n.Key)
		}
	case *ast.CallExpr:
		if id, ok := n.Fun.(*ast.Ident); ok && len(n.Args) >= 1 {
			if r.isBuiltin(id, "make") {
				if _, ok := isChan(r.info.TypeOf(n.Args[0])); ok {
					r.chanArg[n] = true
				}
			} else if r.isBuiltin(id, "close") || r.isBuiltin(id, "len") || r.isBuiltin(id, "cap") {
				if _, ok := isChan(r.info.TypeOf(n.Args[0])); ok {
					r.chanArg[n] = true
				}
			}
		}
	case *ast.RangeStmt:
		if _, ok := isChan(r.info.TypeOf(n.X)); ok {
			r.st.Unsupported = append(r.st.Unsupported, fmt.Sprintf("%s: range over channel", r.fset.Position(n.Pos())))
		}
	case *ast.LabeledStmt:
		if _, ok := n.Stmt.(*ast.SelectStmt); ok {
			r.st.Unsupported = append(r.st.Unsupported, fmt.Sprintf("%s: labelled select", r.fset.Position(n.Pos())))
		}
	case *ast.SelectStmt:
		for _, cc := range n.Body.List {
			comm := cc.(*ast.CommClause).Comm
			if comm == nil {
				continue
			}
			r.skip[comm] = true
			var u *ast.UnaryExpr
			switch s := comm.(type) {
			case *ast.ExprStmt:
				u, _ = ast.Unparen(s.X).(*ast.UnaryExpr)
			case *ast.AssignStmt:
				if len(s.Rhs) == 1 {
					u, _ = ast.Unparen(s.Rhs[0]).(*ast.UnaryExpr)
				}
			case *ast.SendStmt:
			}
			if u != nil {
				r.skip[u] = true
			}
		}
	}
	return true
}

func (r *chanRewriter) newTmp(prefix string) string {
	r.tmp++
	return fmt.Sprintf("_simrt_%s%d", prefix, r.tmp)
}

func typeExpr(text string) ast.Expr {
	// The printer emits identifiers verbatim, so a type's source text can be
	// carried in an Ident.
	return ast.NewIdent(text)
}

// recvClosure builds func() T { t, _ := simrt.Recv(ch).(T); return t }() or
// its two-result form.
func (r *chanRewriter) recvClosure(ch ast.Expr, elem string, two bool) ast.Expr {
	if !two {
		body := []ast.Stmt{
			&ast.AssignStmt{Lhs: []ast.Expr{ast.NewIdent("t"), ast.NewIdent("_")}, Tok: token.DEFINE,
				Rhs: []ast.Expr{&ast.TypeAssertExpr{X: call(sel("simrt", "Recv"), ch), Type: typeExpr(elem)}}},
			&ast.ReturnStmt{Results: []ast.Expr{ast.NewIdent("t")}},
		}
		return call(&ast.FuncLit{
			Type: &ast.FuncType{Params: &ast.FieldList{}, Results: &ast.FieldList{List: []*ast.Field{{Type: typeExpr(elem)}}}},
			Body: &ast.BlockStmt{List: body}})
	}
	body := []ast.Stmt{
		&ast.AssignStmt{Lhs: []ast.Expr{ast.NewIdent("v"), ast.NewIdent("ok")}, Tok: token.DEFINE,
			Rhs: []ast.Expr{call(sel("simrt", "Recv2"), ch)}},
		&ast.AssignStmt{Lhs: []ast.Expr{ast.NewIdent("t"), ast.NewIdent("_")}, Tok: token.DEFINE,
			Rhs: []ast.Expr{&ast.TypeAssertExpr{X: ast.NewIdent("v"), Type: typeExpr(elem)}}},
		&ast.ReturnStmt{Results: []ast.Expr{ast.NewIdent("t"), ast.NewIdent("ok")}},
	}
	return call(&ast.FuncLit{
		Type: &ast.FuncType{Params: &ast.FieldList{}, Results: &ast.FieldList{List: []*ast.Field{{Type: typeExpr(elem)}, {Type: ast.NewIdent("bool")}}}},
		Body: &ast.BlockStmt{List: body}})
}

func (r *chanRewriter) post(c *astutil.Cursor) bool {
	if r.err != nil {
		return false
	}
	n := c.Node()
	if r.skip[n] {
		return true
	}
	switch x := n.(type) {
	case *ast.ChanType:
		c.Replace(&ast.StarExpr{X: sel("simrt", "Chan")})
		r.st.ChanTypes++
		r.changed = true
	case *ast.UnaryExpr:
		if x.Op != token.ARROW {
			break
		}
		// A bare `<-ch` statement needs no value.
		if es, ok := c.Parent().(*ast.ExprStmt); ok && es.X == x {
			c.Replace(call(sel("simrt", "Recv"), x.X))
		} else {
			c.Replace(r.recvClosure(x.X, r.elem[x], r.twoValue[x]))
		}
		r.st.Recvs++
		r.changed = true
	case *ast.SendStmt:
		c.Replace(&ast.ExprStmt{X: call(sel("simrt", "Send"), x.Chan, x.Value)})
		r.st.Sends++
		r.changed = true
	case *ast.CallExpr:
		if !r.chanArg[x] {
			break
		}
		id := x.Fun.(*ast.Ident)
		switch id.Name {
		case "make":
			name := r.makeName[x]
			if name == "" {
				name = fmt.Sprintf("chan@L%d", r.fset.Position(x.Pos()).Line)
			}
			capExpr := ast.Expr(intLit(0))
			if len(x.Args) >= 2 {
				capExpr = call(ast.NewIdent("int"), x.Args[1])
			}
			c.Replace(call(sel("simrt", "NewChan"), strLit(name), capExpr))
			r.st.Makes++
		case "close":
			c.Replace(call(sel("simrt", "Close"), x.Args[0]))
			r.st.Closes++
		case "len":
			c.Replace(call(sel("simrt", "Len"), x.Args[0]))
			r.st.LenCaps++
		case "cap":
			c.Replace(call(sel("simrt", "Cap"), x.Args[0]))
			r.st.LenCaps++
		}
		r.changed = true
	case *ast.GoStmt:
		c.Replace(r.rewriteGo(x))
		r.st.GoStmts++
		r.changed = true
	case *ast.SelectStmt:
		c.Replace(r.rewriteSelect(x))
		r.st.Selects++
		r.changed = true
	}
	return true
}

// rewriteGo turns `go f(a, b)` into
//
//	{ _f := f; _a0, _a1 := a, b; simrt.Go("f", func() { _f(_a0, _a1) }) }
//
// so that the function value and the arguments are evaluated at the go
// statement, as Go specifies.
func (r *chanRewriter) rewriteGo(g *ast.GoStmt) ast.Stmt {
	ce := g.Call
	name := lastName(ce.Fun)
	if name == "" {
		name = fmt.Sprintf("func@L%d", r.fset.Position(g.Pos()).Line)
	}
	var pre []ast.Stmt
	fun := ce.Fun
	switch f := ce.Fun.(type) {
	case *ast.FuncLit:
	case *ast.Ident:
		if _, ok := r.info.Uses[f].(*types.Func); !ok {
			tmp := r.newTmp("f")
			pre = append(pre, &ast.AssignStmt{Lhs: []ast.Expr{ast.NewIdent(tmp)}, Tok: token.DEFINE, Rhs: []ast.Expr{fun}})
			fun = ast.NewIdent(tmp)
		}
	default:
		tmp := r.newTmp("f")
		pre = append(pre, &ast.AssignStmt{Lhs: []ast.Expr{ast.NewIdent(tmp)}, Tok: token.DEFINE, Rhs: []ast.Expr{fun}})
		fun = ast.NewIdent(tmp)
	}
	var args []ast.Expr
	for _, a := range ce.Args {
		if tv, ok := r.info.Types[a]; ok && (tv.Value != nil || tv.IsNil()) {
			args = append(args, a)
			continue
		}
		if _, ok := a.(*ast.FuncLit); ok {
			args = append(args, a)
			continue
		}
		tmp := r.newTmp("a")
		pre = append(pre, &ast.AssignStmt{Lhs: []ast.Expr{ast.NewIdent(tmp)}, Tok: token.DEFINE, Rhs: []ast.Expr{a}})
		args = append(args, ast.NewIdent(tmp))
	}
	inner := &ast.CallExpr{Fun: fun, Args: args, Ellipsis: ce.Ellipsis}
	goCall := &ast.ExprStmt{X: call(sel("simrt", "Go"), strLit(name),
		&ast.FuncLit{Type: &ast.FuncType{Params: &ast.FieldList{}}, Body: &ast.BlockStmt{List: []ast.Stmt{&ast.ExprStmt{X: inner}}}})}
	return &ast.BlockStmt{List: append(pre, goCall)}
}

func (r *chanRewriter) rewriteSelect(s *ast.SelectStmt) ast.Stmt {
	selVar := r.newTmp("sel")
	hasDefault := false
	var cases []ast.Expr
	var clauses []ast.Stmt
	idx := 0
	for _, cs := range s.Body.List {
		cc := cs.(*ast.CommClause)
		if cc.Comm == nil {
			hasDefault = true
			clauses = append(clauses, &ast.CaseClause{List: []ast.Expr{&ast.UnaryExpr{Op: token.SUB, X: intLit(1)}}, Body: cc.Body})
			continue
		}
		var pre []ast.Stmt
		switch comm := cc.Comm.(type) {
		case *ast.SendStmt:
			cases = append(cases, call(sel("simrt", "SendCase"), comm.Chan, comm.Value))
		case *ast.ExprStmt:
			u, ok := ast.Unparen(comm.X).(*ast.UnaryExpr)
			if !ok {
				r.fail(comm, "unexpected select communication")
				return s
			}
			cases = append(cases, call(sel("simrt", "RecvCase"), u.X))
		case *ast.AssignStmt:
			u, ok := ast.Unparen(comm.Rhs[0]).(*ast.UnaryExpr)
			if !ok {
				r.fail(comm, "unexpected select communication")
				return s
			}
			cases = append(cases, call(sel("simrt", "RecvCase"), u.X))
			elem := r.elem[u]
			valTmp := r.newTmp("v")
			assert := &ast.AssignStmt{Lhs: []ast.Expr{ast.NewIdent(valTmp), ast.NewIdent("_")}, Tok: token.DEFINE,
				Rhs: []ast.Expr{&ast.TypeAssertExpr{X: sel(selVar, "Val"), Type: typeExpr(elem)}}}
			isBlank := func(e ast.Expr) bool {
				id, ok := e.(*ast.Ident)
				return ok && id.Name == "_"
			}
			if !isBlank(comm.Lhs[0]) {
				pre = append(pre, assert, &ast.AssignStmt{Lhs: []ast.Expr{comm.Lhs[0]}, Tok: comm.Tok, Rhs: []ast.Expr{ast.NewIdent(valTmp)}})
			}
			if len(comm.Lhs) == 2 && !isBlank(comm.Lhs[1]) {
				pre = append(pre, &ast.AssignStmt{Lhs: []ast.Expr{comm.Lhs[1]}, Tok: comm.Tok, Rhs: []ast.Expr{sel(selVar, "Ok")}})
			}
		}
		clauses = append(clauses, &ast.CaseClause{List: []ast.Expr{intLit(idx)}, Body: append(pre, cc.Body...)})
		idx++
	}
	hd := "false"
	if hasDefault {
		hd = "true"
	}
	args := append([]ast.Expr{ast.NewIdent(hd)}, cases...)
	return &ast.BlockStmt{List: []ast.Stmt{
		&ast.AssignStmt{Lhs: []ast.Expr{ast.NewIdent(selVar)}, Tok: token.DEFINE, Rhs: []ast.Expr{call(sel("simrt", "Select"), args...)}},
		&ast.SwitchStmt{Tag: sel(selVar, "Index"), Body: &ast.BlockStmt{List: clauses}},
	}}
}

func (r *chanRewriter) run() bool {
	astutil.Apply(r.file, r.pre, r.post)
	return r.changed
}

// WriteOverlay writes replacement files into dir and returns the overlay map
// entries (original path -> replacement path).
func WriteOverlay(dir string, files map[string][]byte) (map[string]string, error) {
	if err := os.MkdirAll(dir, 0o755); err != nil {
		return nil, err
	}
	m := map[string]string{}
	i := 0
	for orig, content := range files {
		i++
		p := filepath.Join(dir, fmt.Sprintf("%03d_%s", i, filepath.Base(orig)))
		if err := os.WriteFile(p, content, 0o644); err != nil {
			return nil, err
		}
		m[orig] = p
	}
	return m, nil
}
