package rewrite

// RewriteFactObserver makes the checker's remembered facts observable (engine
// D, C02) without touching /repo: it returns replacement content for
// lang/check/bounds.go in which the statement loop of (*checker).bcheckBlock
// starts with
//
//	verifObserve(q, o)
//
// and the content of an extra file for the same package that defines
//
//	var VerifObserve func(fn *a.Func, stmt *a.Node, after bool, facts []*a.Expr)
//
// Both are injected with `go build -overlay`. The call happens before the
// statement is bounds-checked, i.e. with exactly the fact list the compiler
// holds when execution reaches that statement; a second call, verifObserveEnd,
// just before bcheckBlock returns, reports the facts held at the end of the
// block (those feed if/else reconciliation and the loop-invariant proofs on
// the implicit continue and are otherwise never seen by a statement). The rewrite is structural (the
// method bcheckBlock, its only range loop); if the working tree's checker no
// longer has that shape the caller gets an error, which the driver reports as
// "no verdict" (exit 2), never as a violation.

import (
	"bytes"
	"fmt"
	"go/ast"
	"go/format"
	"go/parser"
	"go/token"
	"os"
	"path/filepath"
)

const factObserverFile = `// Code generated at check time by /verif/rewrite; DO NOT EDIT.

package check

import (
	a "github.com/google/wuffs/lang/ast"
)

// VerifObserve, when non-nil, receives a copy of the fact list held before
// each statement is bounds-checked (after == false) and of the fact list held
// when the end of a block is reached (after == true, stmt is the block's last
// statement).
var VerifObserve func(fn *a.Func, stmt *a.Node, after bool, facts []*a.Expr)

func verifObserve(q *checker, o *a.Node) {
	if VerifObserve != nil {
		VerifObserve(q.astFunc, o, false, append([]*a.Expr(nil), q.facts...))
	}
}

func verifObserveEnd(q *checker, block []*a.Node) {
	if VerifObserve != nil && len(block) > 0 {
		VerifObserve(q.astFunc, block[len(block)-1], true, append([]*a.Expr(nil), q.facts...))
	}
}
`

// RewriteFactObserver returns overlay entries (original path -> content).
func RewriteFactObserver(repoRoot string) (map[string][]byte, error) {
	path := filepath.Join(repoRoot, "lang", "check", "bounds.go")
	src, err := os.ReadFile(path)
	if err != nil {
		return nil, err
	}
	fset := token.NewFileSet()
	file, err := parser.ParseFile(fset, path, src, parser.ParseComments)
	if err != nil {
		return nil, err
	}
	done := false
	for _, d := range file.Decls {
		fd, ok := d.(*ast.FuncDecl)
		if !ok || fd.Name.Name != "bcheckBlock" || fd.Recv == nil || len(fd.Recv.List) != 1 || fd.Body == nil {
			continue
		}
		recv := ""
		if len(fd.Recv.List[0].Names) == 1 {
			recv = fd.Recv.List[0].Names[0].Name
		}
		if recv == "" || len(fd.Type.Params.List) != 1 || len(fd.Type.Params.List[0].Names) != 1 {
			return nil, fmt.Errorf("bcheckBlock has an unexpected signature")
		}
		param := fd.Type.Params.List[0].Names[0].Name
		var loops []*ast.RangeStmt
		for _, s := range fd.Body.List {
			if rs, ok := s.(*ast.RangeStmt); ok {
				if id, ok := rs.X.(*ast.Ident); ok && id.Name == param {
					loops = append(loops, rs)
				}
			}
		}
		if len(loops) != 1 {
			return nil, fmt.Errorf("bcheckBlock: expected exactly one top-level range over %q, found %d", param, len(loops))
		}
		v, ok := loops[0].Value.(*ast.Ident)
		if !ok || v.Name == "_" {
			return nil, fmt.Errorf("bcheckBlock: the statement loop has no value variable")
		}
		// The loop must hand each element to bcheckStatement, otherwise the
		// observation point would not be "before the statement is checked".
		calls := 0
		ast.Inspect(loops[0].Body, func(n ast.Node) bool {
			if c, ok := n.(*ast.CallExpr); ok {
				if se, ok := c.Fun.(*ast.SelectorExpr); ok && se.Sel.Name == "bcheckStatement" && len(c.Args) == 1 {
					if id, ok := c.Args[0].(*ast.Ident); ok && id.Name == v.Name {
						calls++
					}
				}
			}
			return true
		})
		if calls != 1 {
			return nil, fmt.Errorf("bcheckBlock: expected one bcheckStatement(%s) call in the loop, found %d", v.Name, calls)
		}
		obs := &ast.ExprStmt{X: &ast.CallExpr{Fun: ast.NewIdent("verifObserve"), Args: []ast.Expr{ast.NewIdent(recv), ast.NewIdent(v.Name)}}}
		loops[0].Body.List = append([]ast.Stmt{obs}, loops[0].Body.List...)
		// The end of the block: just before the function's final "return nil".
		// (A block that ends in a jump or return is never left normally at run
		// time, so its end observation is simply never evaluated.)
		last := len(fd.Body.List) - 1
		ret, ok := fd.Body.List[last].(*ast.ReturnStmt)
		if !ok || len(ret.Results) != 1 {
			return nil, fmt.Errorf("bcheckBlock does not end in a single-value return")
		}
		if id, ok := ret.Results[0].(*ast.Ident); !ok || id.Name != "nil" {
			return nil, fmt.Errorf("bcheckBlock does not end in `return nil`")
		}
		end := &ast.ExprStmt{X: &ast.CallExpr{Fun: ast.NewIdent("verifObserveEnd"), Args: []ast.Expr{ast.NewIdent(recv), ast.NewIdent(param)}}}
		fd.Body.List = append(fd.Body.List[:last:last], end, ret)
		done = true
	}
	if !done {
		return nil, fmt.Errorf("lang/check/bounds.go has no method bcheckBlock")
	}
	var buf bytes.Buffer
	if err := format.Node(&buf, fset, file); err != nil {
		return nil, err
	}
	return map[string][]byte{
		path: append([]byte("// Code generated at check time by /verif/rewrite from the working tree; DO NOT EDIT.\n"), buf.Bytes()...),
		filepath.Join(repoRoot, "lang", "check", "zz_verif_observe.go"): []byte(factObserverFile),
	}, nil
}
