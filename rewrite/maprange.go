package rewrite

// RewriteMapOrder makes the two order-nondeterminism sources of the compiler
// controllable (engine E, C20): every `range` over a map - found by go/types,
// so a new map-ordered loop introduced by an edit to /repo is covered without
// touching the harness - iterates over a seeded permutation of the keys, and
// every directory listing obtained from an *os.File is permuted likewise. Go's
// own map randomisation cannot be seeded, which is why observing repeated real
// runs would be monitoring rather than simulation.
//
//	for k, v := range m { body }
//
// becomes
//
//	for _, _envsim_k := range envsim.MapKeys(m) {
//		k := _envsim_k.Interface().(K)
//		v, _envsim_ok := m[k]
//		if !_envsim_ok { continue }   // deleted during the iteration: Go skips it too
//		body
//	}
//
// Keys are snapshotted at loop entry (an entry added during iteration may or
// may not be visited in Go; not visiting it is one of the legal behaviours).

import (
	"bytes"
	"fmt"
	"go/ast"
	"go/format"
	"go/token"
	"go/types"
	"path/filepath"
	"sort"
	"strings"

	"golang.org/x/tools/go/ast/astutil"
	"golang.org/x/tools/go/packages"
)

const EnvsimImport = "github.com/google/wuffs/lib/envsim"

type MapOrderStats struct {
	Packages    int
	Files       []string
	MapRanges   int
	KeyKinds    map[string]int
	Readdirs    int
	Unsupported []string
}

func (s MapOrderStats) String() string {
	return fmt.Sprintf("packages=%d files=%v map-ranges=%d key-kinds=%v readdir-sites=%d unsupported=%v", s.Packages, s.Files, s.MapRanges, s.KeyKinds, s.Readdirs, s.Unsupported)
}

// RewriteMapOrder loads the packages matching patterns (with dependencies) and
// rewrites those whose import path starts with modulePrefix.
func RewriteMapOrder(modDir string, env []string, modulePrefix string, patterns ...string) (map[string][]byte, MapOrderStats, error) {
	st := MapOrderStats{KeyKinds: map[string]int{}}
	cfg := &packages.Config{
		Mode: packages.NeedName | packages.NeedFiles | packages.NeedCompiledGoFiles | packages.NeedSyntax |
			packages.NeedTypes | packages.NeedTypesInfo | packages.NeedImports | packages.NeedDeps,
		Dir: modDir,
		Env: env,
	}
	roots, err := packages.Load(cfg, patterns...)
	if err != nil {
		return nil, st, err
	}
	seen := map[string]*packages.Package{}
	var visit func(p *packages.Package)
	visit = func(p *packages.Package) {
		if seen[p.PkgPath] != nil {
			return
		}
		seen[p.PkgPath] = p
		for _, d := range p.Imports {
			visit(d)
		}
	}
	for _, p := range roots {
		visit(p)
	}
	var paths []string
	for path := range seen {
		if strings.HasPrefix(path, modulePrefix) {
			paths = append(paths, path)
		}
	}
	sort.Strings(paths)
	out := map[string][]byte{}
	for _, path := range paths {
		pkg := seen[path]
		if len(pkg.Errors) > 0 {
			return nil, st, fmt.Errorf("package %s does not type-check: %v", path, pkg.Errors[0])
		}
		st.Packages++
		for fi, file := range pkg.Syntax {
			fname := pkg.CompiledGoFiles[fi]
			if !strings.HasSuffix(fname, ".go") {
				continue
			}
			rw := &mapRewriter{pkg: pkg, fset: pkg.Fset, info: pkg.TypesInfo, st: &st, needImports: map[string]bool{}}
			astutil.Apply(file, rw.pre, rw.post)
			if rw.err != nil {
				return nil, st, fmt.Errorf("%s: %v", fname, rw.err)
			}
			if !rw.changed {
				continue
			}
			astutil.AddImport(pkg.Fset, file, EnvsimImport)
			for p := range rw.needImports {
				astutil.AddImport(pkg.Fset, file, p)
			}
			var buf bytes.Buffer
			if err := format.Node(&buf, pkg.Fset, file); err != nil {
				return nil, st, fmt.Errorf("%s: printing: %v", fname, err)
			}
			out[fname] = append([]byte("// Code generated at check time by /verif/rewrite from the working tree; DO NOT EDIT.\n"), buf.Bytes()...)
			st.Files = append(st.Files, filepath.Base(filepath.Dir(fname))+"/"+filepath.Base(fname))
		}
	}
	sort.Strings(st.Files)
	return out, st, nil
}

type mapRewriter struct {
	pkg         *packages.Package
	fset        *token.FileSet
	info        *types.Info
	st          *MapOrderStats
	needImports map[string]bool
	changed     bool
	err         error
	n           int
	// recorded in pre-order, while the original typed nodes are intact
	mapKey   map[*ast.RangeStmt]string
	readdirs map[*ast.CallExpr]string
}

func (r *mapRewriter) typeText(t types.Type) string {
	return types.TypeString(t, func(p *types.Package) string {
		if p == r.pkg.Types {
			return ""
		}
		r.needImports[p.Path()] = true
		return p.Name()
	})
}

func pureExpr(e ast.Expr) bool {
	switch x := e.(type) {
	case *ast.Ident:
		return true
	case *ast.SelectorExpr:
		return pureExpr(x.X)
	case *ast.ParenExpr:
		return pureExpr(x.X)
	case *ast.StarExpr:
		return pureExpr(x.X)
	case *ast.IndexExpr:
		return pureExpr(x.X) && pureExpr(x.Index)
	case *ast.BasicLit:
		return true
	}
	return false
}

func (r *mapRewriter) pre(c *astutil.Cursor) bool {
	if r.mapKey == nil {
		r.mapKey = map[*ast.RangeStmt]string{}
		r.readdirs = map[*ast.CallExpr]string{}
	}
	switch n := c.Node().(type) {
	case *ast.RangeStmt:
		t := r.info.TypeOf(n.X)
		if t == nil {
			break
		}
		if m, ok := t.Underlying().(*types.Map); ok {
			r.mapKey[n] = r.typeText(m.Key())
			kind := "other"
			switch k := m.Key().Underlying().(type) {
			case *types.Basic:
				kind = k.Name()
			case *types.Pointer:
				kind = "pointer"
			case *types.Array:
				kind = "array"
			case *types.Interface:
				kind = "interface"
			}
			r.st.KeyKinds[kind]++
		}
	case *ast.CallExpr:
		if se, ok := n.Fun.(*ast.SelectorExpr); ok {
			if fn, ok := r.info.Uses[se.Sel].(*types.Func); ok && fn.Pkg() != nil && fn.Pkg().Path() == "os" {
				if sig, ok := fn.Type().(*types.Signature); ok && sig.Recv() != nil {
					switch fn.Name() {
					case "Readdir":
						r.readdirs[n] = "PermFileInfos"
					case "Readdirnames":
						r.readdirs[n] = "PermNames"
					case "ReadDir":
						r.readdirs[n] = "PermDirEntries"
					}
				}
			}
		}
	}
	return true
}

func (r *mapRewriter) post(c *astutil.Cursor) bool {
	if r.err != nil {
		return false
	}
	switch n := c.Node().(type) {
	case *ast.CallExpr:
		if fn, ok := r.readdirs[n]; ok {
			// envsim.PermX(f.Readdir(n)) : a multi-value call as the only argument.
			c.Replace(&ast.CallExpr{Fun: sel("envsim", fn), Args: []ast.Expr{n}})
			delete(r.readdirs, n)
			r.st.Readdirs++
			r.changed = true
		}
	case *ast.RangeStmt:
		keyType, ok := r.mapKey[n]
		if !ok {
			break
		}
		if !pureExpr(n.X) {
			r.st.Unsupported = append(r.st.Unsupported, fmt.Sprintf("%s: range over a map-valued expression with calls", r.fset.Position(n.Pos())))
			break
		}
		r.n++
		kv := fmt.Sprintf("_envsim_k%d", r.n)
		okv := fmt.Sprintf("_envsim_ok%d", r.n)
		isBlank := func(e ast.Expr) bool {
			if e == nil {
				return true
			}
			id, ok := e.(*ast.Ident)
			return ok && id.Name == "_"
		}
		var head []ast.Stmt
		keyExpr := ast.Expr(&ast.TypeAssertExpr{X: call(&ast.SelectorExpr{X: ast.NewIdent(kv), Sel: ast.NewIdent("Interface")}), Type: ast.NewIdent(keyType)})
		needKey := !isBlank(n.Key) || !isBlank(n.Value)
		keyName := ast.Expr(nil)
		if needKey {
			if !isBlank(n.Key) {
				head = append(head, &ast.AssignStmt{Lhs: []ast.Expr{n.Key}, Tok: n.Tok, Rhs: []ast.Expr{keyExpr}})
				keyName = n.Key
			} else {
				tmp := ast.NewIdent(fmt.Sprintf("_envsim_key%d", r.n))
				head = append(head, &ast.AssignStmt{Lhs: []ast.Expr{tmp}, Tok: token.DEFINE, Rhs: []ast.Expr{keyExpr}})
				keyName = tmp
			}
		}
		// Presence is re-checked so that deletions during the iteration keep
		// Go's semantics.
		lookup := &ast.IndexExpr{X: n.X, Index: keyName}
		if needKey {
			if !isBlank(n.Value) {
				if n.Tok == token.DEFINE {
					head = append(head, &ast.AssignStmt{Lhs: []ast.Expr{n.Value, ast.NewIdent(okv)}, Tok: token.DEFINE, Rhs: []ast.Expr{lookup}})
				} else {
					head = append(head,
						&ast.DeclStmt{Decl: &ast.GenDecl{Tok: token.VAR, Specs: []ast.Spec{&ast.ValueSpec{Names: []*ast.Ident{ast.NewIdent(okv)}, Type: ast.NewIdent("bool")}}}},
						&ast.AssignStmt{Lhs: []ast.Expr{n.Value, ast.NewIdent(okv)}, Tok: token.ASSIGN, Rhs: []ast.Expr{lookup}})
				}
			} else {
				head = append(head, &ast.AssignStmt{Lhs: []ast.Expr{ast.NewIdent("_"), ast.NewIdent(okv)}, Tok: token.DEFINE, Rhs: []ast.Expr{lookup}})
			}
			head = append(head, &ast.IfStmt{Cond: &ast.UnaryExpr{Op: token.NOT, X: ast.NewIdent(okv)},
				Body: &ast.BlockStmt{List: []ast.Stmt{&ast.BranchStmt{Tok: token.CONTINUE}}}})
		}
		loopKey := ast.Expr(ast.NewIdent(kv))
		if !needKey {
			loopKey = ast.NewIdent("_")
		}
		// `continue` inside `head` targets this very loop, labelled or not.
		c.Replace(&ast.RangeStmt{
			Key: ast.NewIdent("_"), Value: loopKey, Tok: token.DEFINE,
			X:    call(sel("envsim", "MapKeys"), n.X),
			Body: &ast.BlockStmt{List: append(head, n.Body.List...)},
		})
		if !needKey {
			// `for range m` / `for _ = range m`: Tok must be ASSIGN-free.
			c.Replace(&ast.RangeStmt{Tok: token.ILLEGAL, X: call(sel("envsim", "MapKeys"), n.X), Body: n.Body})
		}
		r.st.MapRanges++
		r.changed = true
	}
	return true
}
