#!/bin/bash
# Regression matrix: applies every stored mutant (seeded/<id>/patch.diff) to
# /repo in turn, runs the quick tier of its property (plus the neighbouring
# properties named below), undoes the patch, and prints one line per run.
# A mutant counts as caught when one of the checks exits 1 with a VIOLATION line
# that is not one of the open known findings. Exit status 0 always; read the
# table. Usage: tools/run_seeded.sh [id-prefix ...]   (default: all)
# NEVER run this while another check is building from /repo.
set -u
cd /verif || exit 2
if [ -n "$(git -C /repo status --porcelain)" ]; then echo "run_seeded: /repo is not clean"; exit 2; fi
extra() {  # neighbouring checks that are known to see some mutants of this property
  case "$1" in
    C01-*) echo "C02";; C02-m2) echo "C01";; C09-m3) echo "C03";; C07-m4) echo "C09";; C08-m2) echo "C03";; *) echo "";;
  esac
}
ids=("$@"); [ ${#ids[@]} -eq 0 ] && ids=("")
for d in /verif/seeded/*/; do
  id=$(basename "$d"); [ -f "$d/patch.diff" ] || continue
  match=0; for p in "${ids[@]}"; do case "$id" in "$p"*) match=1;; esac; done; [ $match -eq 1 ] || continue
  prop=${id%%-*}
  if ! git -C /repo apply --check "$d/patch.diff" 2>/dev/null; then echo "$id: PATCH DOES NOT APPLY to the current tree"; continue; fi
  git -C /repo apply "$d/patch.diff"
  verdict="MISSED"; detail=""
  for P in $prop $(extra "$id"); do
    out=$(timeout 3000 ./bin/vcheck run "$P" --tier quick --no-evidence 2>&1); rc=$?
    n=$(echo "$out" | grep -c '^VIOLATION')
    first=$(echo "$out" | grep -o 'key=[^ ]* run=[0-9]*' | head -1)
    detail="$detail $P:exit=$rc,violations=$n${first:+,$first}"
    if [ $rc -eq 1 ] && [ "$n" -gt 0 ]; then verdict="caught"; fi
    if [ $rc -eq 2 ]; then verdict="${verdict}(no-verdict:$P)"; fi
    rm -f /verif/replays/${P}-*.json
  done
  git -C /repo checkout -- . 2>/dev/null
  echo "$id: $verdict $detail"
done
[ -z "$(git -C /repo status --porcelain)" ] || echo "run_seeded: WARNING /repo left dirty"
