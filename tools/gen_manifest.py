#!/usr/bin/env python3
"""Regenerates /verif/MANIFEST.json. The data below is the single place where
claims are stated; edit here, run, commit."""
import json, sys

SETUP = "cd /verif && GOFLAGS=-mod=mod GOPROXY=off GOSUMDB=off GOTOOLCHAIN=local go build -o bin/vcheck ./cmd/vcheck"

def check(pid, engine, category, text, note, technique, design_ref):
    return {
        "property_id": pid,
        "quick_cmd": "./bin/vcheck run %s --tier quick" % pid,
        "thorough_cmd": "./bin/vcheck run %s --tier thorough" % pid,
        "evidence_file": "/verif/evidence/%s.json" % pid,
        "replay_cmd_template": "./bin/vcheck replay {path}",
        "engine": engine,
        "level_claimed": {"category": category, "text": text, "design_ref": design_ref},
        "level_note": note,
        "technique": technique,
    }

CHECKS = []
NA = []

CHECKS.append(check(
    "C13", "disksim", "fault_enumeration",
    "Seeded workloads (payload x Write partition x codec x chunk sizing x page size x index location x temp-file flavour x resources) run the real rac.Writer over a simulated disk; fault-free runs are judged by an independent spec validator, an independent decoder and rac.Reader; then every single storage-fault position of the sampled workload (each underlying Write/Read/Seek x each applicable fault kind) is enumerated and the sticky-error oracle applied, plus drawn double faults. Sampling over workloads, exhaustive over single-fault positions per workload.",
    "Trusts: the validator's reading of doc/spec/rac-spec.md; Go's compress/zlib as the independent zlib decoder; faults obey the io.Writer/io.Reader contracts. Zstandard leaves are additionally decoded by the system zstd tool (a sample of up to five leaves per file, exactly the leaf's first frame) and compared with the payload; LZ4 leaves are checked structurally and through rac.Reader only (the specification's 'RAC + LZ4' section is 'TODO').",
    "deterministic simulation: simulated disk with enumerated fault points + reference model (independent RAC validator/decoder)",
    "DESIGN.md section 3 B, section 5 C13"))

CHECKS.append(check(
    "C15", "disksim", "exploration",
    "Seeded hostile byte strings (valid files from the real writer or node graphs assembled from the spec, with 0-3 structured or raw mutations, checksum repaired, and honest or dishonest claimed sizes) are opened, walked, seeked and decoded through ChunkReader and rac.Reader on an immutable simulated disk whose operation counter is the work clock; oracles: no panic, per-call work budget, yielded chunk invariants (CPrimary low<=high inside the file; DRanges non-empty, ascending, contiguous, ending at DecompressedSize), repeatable decode.",
    "Sampling only. Trusts the work-bound argument in DESIGN.md section 5 C15 (budget met by every spec-legal structure). Files > 64 KiB of output are cut off by the harness.",
    "deterministic simulation: op-counting simulated disk (work clock) + stored-byte corruption faults before open",
    "DESIGN.md section 3 B, section 5 C15"))

CHECKS.append(check(
    "C14", "gosim", "exploration",
    "The real lib/rac Reader runs with conc_reader.go's go statements, channel operations and selects rewritten (type-driven, at check time, from the working tree) onto a seeded scheduler in which exactly one goroutine runs at a time and every scheduling decision is a tape draw; seeded call histories (Read/Seek/SeekRange/Close/CloseWithoutWaiting, biased to chunk boundaries and to seeks with work in flight) over several file shapes and Concurrency 0..8 are compared call by call with an in-memory reader; further oracles: deadlock, step-budget livelock, goroutine leak after Close, panic in any goroutine, and (a quarter of the workers, -race build) data races judged against channel-induced happens-before only. Three uniform/priority/sticky scheduling policies, virtual disk latency and a stalled worker as faults.",
    "Sampling of schedules and histories, not enumeration. Trusts simrt's channel semantics, which are themselves checked (engines/gosim/simrt/simrt_test.go: exhaustive enumeration of simrt's schedules on 400 random channel programs equals an independent reference semantics, and 2400 executions on the real Go runtime stay inside that reference). If lib/rac starts using sync, time, context or reflect the rewriter refuses and the check exits 2 (no verdict) rather than guess.",
    "deterministic simulation: seeded goroutine scheduler over rewritten channel operations + reference model (in-memory reader) + in-simulation race detection",
    "DESIGN.md section 3 A, section 5 C14, Appendices A and G"))

CSIM_NOTE = ("Sampling of (stream, schedule) pairs. In C03, C05 and C07 (and, in their own modes described with them, C08 and C09) one run in three to six drives an IMAGE decoder instead (bmp, gif, jpeg, netpbm, nie, png, qoi, targa, wbmp, webp, etc2, thumbhash through the generic wuffs_base__image_decoder interface: decode_image_config, then decode_frame_config / decode_frame for up to 6 frames into a BGRA pixel buffer) over the repository's image files incl. test/data/artificial-*, or PNG/GIF written by Go's encoders (C07: decoded pixels must equal the original), with the file delivered by a drawn schedule (all at once, fixed or drawn pieces, one split point, late close, empty wake-ups, consumed bytes compacted away or kept).  Trusts: clang-14's ASan+UBSan (minus two sub-checks, below) to surface memory errors; the simulated caller obeys exactly the "
             "contracts the repository's own callers obey (example/zcat, example/mzcat). Covers the eight io_transformer decoders (deflate, zlib, gzip, lzw, bzip2, lzma, xz, lzip), the twelve image decoders and (C07) the hashers; token decoders (json, cbor), tell_me_more / metadata, restart_frame and quirks are not driven. Repository streams come from test/data and test/data/artificial-* (hand-made edge cases). UBSan's pointer-overflow and nonnull-attribute sub-checks are off (NULL+0 and memset(NULL,0,0) on empty slices touch no memory and are none of the defect classes C03 lists; ASan still traps any real NULL access): DESIGN.md appendix D. Runs on this VM's x86-64 SIMD paths only. If the working tree's compiler does not build, or clang rejects its output, the check exits 2 (no verdict).")

CHECKS.append(check(
    "C03", "csim", "exploration",
    "C generated at check time by the working tree's `wuffs gen std/...` is compiled with ASan+UBSan and driven, one call per round trip, by a simulated caller: seeded streams (independent encoders or test/data, 80% with 1-3 stream faults) delivered under seeded schedules (source split down to 1 byte, late EOF, spurious empty deliveries, source compacted or not, destination grants down to 1 byte, partial drains, compaction with history retention, relocation, work buffer at min or max, object memory pre-filled with zeroes/0xFF/noise). Oracles per call: no sanitizer report or crash; source bytes and meta untouched; destination bytes below the old wi untouched; indexes monotone and in range; status is ok/note/suspension/error and never an internal error; no short read on a closed fully supplied source, no short write with nothing written into an empty destination of at least 64 KiB, no short workbuf when the buffer meets workbuf_len().min_incl; no allocator call during the call (ASan builds).",
    CSIM_NOTE + " 'Never allocates or frees': on the ASan builds the allocator's malloc/free hooks count every allocator call made during each transform_io call (a malloc+free pair inside one call counts); the -O2 builds cannot tell and say so. Self-tested by a deliberate allocation inside the counted window (a first self-test was silently optimised away by clang: the pointer has to be volatile).",
    "deterministic simulation: I/O-delivery schedule simulator around generated C under sanitizers + stream corruption faults",
    "DESIGN.md section 3 C, section 5 C03, Appendix B"))
CHECKS.append(check(
    "C05", "csim", "exploration",
    "Same simulator. Reference = one caller loop that never withholds input, output space or work buffer. Compared with it: every single split point of the source for streams up to 2 KiB (exhaustive over that axis for the sampled stream), drawn multi-split schedules as in C03, and fixed destination windows from 1 byte upward (minimum-window mode); one third of the streams damaged. Oracle: identical output bytes and final status; identical consumed count unless the final status is an error.",
    CSIM_NOTE + " Ten open known findings, all in the lzma decoder family (leftover destination history; 274-byte minimum destination window), each keyed by oracle, decoder and the history condition.",
    "deterministic simulation: I/O-delivery schedule simulator, differential against the one-shot delivery of the same stream",
    "DESIGN.md section 3 C, section 5 C05"))
CHECKS.append(check(
    "C07", "csim", "exploration",
    "Same simulator on undamaged streams produced at check time by independent encoders (Go compress/flate|zlib|gzip with all levels incl. stored and Huffman-only and flush patterns, Go compress/lzw, system bzip2 -1..-9, system xz --format=xz|lzma presets 0-6 with four integrity checks; payload classes incl. > 32 KiB window) on the ASan and the -O2 builds. Oracle: status ok and output == the original payload, under every drawn delivery schedule. One run in three instead drives a hasher (CRC-32, Adler-32, CRC-64, SHA-256; xxhash32/64) over a seeded payload (lengths around the SIMD block sizes favoured, up to 65 KB, six content classes) cut into update calls by a per-run policy (all at once, pieces of 0-8 bytes, pieces around 16/32/64, halves, one big piece between slivers), each piece in its own exact-size allocation at a drawn misalignment (an over-read is an ASan report), on the SIMD, portable and -O2 builds, over zeroed / 0xFF / noise object memory with the three initialize flags; the value returned by EVERY update call and the final checksum must equal Go's hash/crc32, hash/adler32, hash/crc64 (ECMA) and crypto/sha256 of the prefix; xxhash has no independent reference here and is compared with a single-update run.",
    CSIM_NOTE + " The simulated dimension is the delivery schedule (for hashers: the schedule of update calls, piece placement, prior memory and build); payload x encoder setting is plain seeded generation. PNG/GIF (pixels) are not driven. Own probe: enlarging Adler-32's deferred-modulo chunk in the portable path is caught (a 39 KB 0xFF-heavy payload on the portable build).",
    "deterministic simulation: I/O-delivery schedule simulator + reference encoders as the model",
    "DESIGN.md section 3 C, section 5 C07"))

CHECKS.append(check(
    "C08", "csim", "exploration",
    "Same simulator. One run = one call history of 3-11 steps on a decoder object whose memory starts raw (zeroes, 0xFF or noise, never initialised): initialize (ok / sizeof too small or too big / wrong version), transform_io with valid arguments over a valid or damaged stream delivered in drawn pieces, transform_io with a NULL source or NULL destination, re-initialisation at any point. Checked call by call against an explicit life-cycle state machine (Raw, Ready, Suspended, Disabled, NoClaim) written from doc/note/statuses.md and initialization.md that predicts exactly the statuses the property names ('initialize not called', 'bad sizeof receiver', 'bad wuffs version', 'bad argument', 'disabled by previous error'), plus the buffer contract on every call (source bytes and meta untouched, destination bytes below the old wi untouched, indexes monotone and in range).",
    CSIM_NOTE + " io_transformer decoders only (one coroutine each): One run in three is instead a history of 3-10 calls (decode_image_config, decode_frame_config, decode_frame, restart_frame, tell_me_more; with the whole valid file available, or so little at first that the first coroutine suspends) on an IMAGE decoder, checked call by call against a second explicit model written from doc/std/image-decoders-call-sequence.md and the property text: decode_image_config after any completed decode call and restart_frame on a fresh decoder return 'bad call sequence'; decode_frame_config / decode_frame imply the calls they skip and never return it; tell_me_more without reported metadata is rejected with an error (which error is not demanded: decoders without metadata answer 'no more information' - a first, stricter version of the model was a false alarm); a different coroutine while one is suspended returns 'interleaved coroutine calls'; after any failed coroutine call everything returns 'disabled by previous error'. No prediction after a failing restart_frame, after 'end of data' or after another note. Own probe: relaxing the gif decoder's decode_image_config check is caught at run 11 (a 1x1 GIF, decode_image_config twice). The model makes no prediction after a failed initialize or after a decode has finished, because the property says nothing there.",
    "deterministic simulation: seeded call histories against an explicit life-cycle state machine + buffer-contract invariants",
    "DESIGN.md section 3 C, section 5 C08, Appendix C"))
CHECKS.append(check(
    "C09", "csim", "exploration",
    "Same simulator. One run = one (stream, delivery schedule) executed on a base variant (ASan build with this CPU's SIMD paths, zeroed object memory, default initialize flags) and on 3-5 drawn variants of the cross product {ASan, -O2} x {SIMD paths, WUFFS_CONFIG__AVOID_CPU_ARCH} x object memory pre-fill {zeroes, 0xFF, noise} x initialize flags {default, ALREADY_ZEROED on zeroed memory, LEAVE_INTERNAL_BUFFERS_UNINITIALIZED} x {fresh object, memory that just held a decode of another stream} x destination-beyond-wi pre-fill; the portable twin of the base is always included. The schedule comes from a sub-tape seeded by one draw, so every variant sees the same decisions. Oracle: identical initialize status, final status, output bytes, consumed count and per-call record fingerprint.",
    CSIM_NOTE + " One run in three replays one image file and one delivery schedule across the same variant space for the twelve image decoders (image config, frame bounds, per-frame pixel hashes - only under the base pixel pre-fill -, final status, consumed count). The documented JPEG exception is honoured: a DAMAGED jpeg, or one of the hand-made files under test/data/artificial-jpeg, is not compared across CPU paths (counted as variant_skipped_jpeg_idct_exception); undamaged ones are.",
    "deterministic simulation: one delivery schedule replayed across memory / initialize-flag / CPU-path variants, differential",
    "DESIGN.md section 3 C, section 5 C09"))
CHECKS.append(check(
    "C20", "envsim", "exploration",
    "The compiler (cmd/wuffs, cmd/wuffs-c and everything they link) is built from the working tree twice: as is, and with every range-over-map (found by go/types: 9 sites today) and every (*os.File).Readdir result rewritten onto a seeded permutation runtime injected with go build -overlay. One run = one whole `wuffs gen std/...` by the rewritten tools under a drawn permutation seed, GOMAXPROCS, scratch-root path, working directory and unrelated environment variables; oracle: the sha256 of every generated artefact (gen/c/*.c, gen/wuffs/**, the release file) equals the reference produced by the un-rewritten tools. One run in six checks instead that the reference release equals the committed release/c/wuffs-unsupported-snapshot.c, or that lang/check/gen.go regenerates the committed lang/check/data.go.",
    "Sampling of permutation seeds and environments. Assumes map iteration and directory enumeration are the compiler's only order-nondeterminism sources (it starts no goroutines; checked: none of the 9 maps is keyed by pointers, so every permutation is reproducible). A sensitivity probe showed both directions: dropping listDir's file-name sort is caught at run 0; weakening a sort whose result never reaches the output is, correctly, not reported (seeded/C20-s1-equivalent).",
    "deterministic simulation: seeded map-iteration and directory-enumeration order under the real compiler (source rewrite at check time), differential against an un-rewritten build",
    "DESIGN.md section 3 E, section 5 C20"))

CHECKS.append(check(
    "C01", "wsim", "exploration",
    "One run = one Wuffs program (hand corpus, or a seeded near-miss generator: a proof obligation that holds only through a fact - if-guard, mask/min, loop condition, narrowing guard, derived range of a modular operator on a refined operand, slice-length fact - with or without a statement in between that should kill the fact: assignment, +=, x = x + 1, impure call, field store behind a pure call, slice re-assignment; plus an operator-stress generator over four integer widths, a slice generator with constant and non-constant bounds, and a coroutine generator with I/O in which a suspension point is - or is not - placed between a guard on a local / an argument / a field / src.length() and its use) handed to the working tree's lang/token+parse+check. A rejected program is counted and dropped. An accepted one is executed by a reference interpreter (ideal integers, written from the language documentation) under a seeded history of public calls with drawn arguments (extremes and refinement edges favoured) on one receiver whose state persists across calls; coroutines are driven by a simulated caller that decides from the tape how many source bytes arrive before each (re)entry, when the source is closed, how much destination space exists and when it is drained, which scalar arguments change across a resumption and which non-coroutine public methods run while the coroutine is suspended; a monitor checks at every evaluated node that the value lies in the range the compiler derived for it (MBounds) and at every index, slice, shift, division, non-modular operation, conversion, assignment, argument and return the actual safety condition against actual lengths and types.",
    "Sampling of programs x call histories. The interpreter shares the front end with the compiler (a mis-parse or mis-typed annotation is common-mode and invisible) and covers a stated subset: integers and refinements, arrays, slices of u8..u64, struct fields, if/else, while with break/continue, private/public method calls, compound and modular/saturating assignment, as-conversions, min/max/length; coroutines with yield, nested `?` calls, error propagation and the io_reader read/peek/skip and io_writer write_u8 built-ins; anything outside it (`=?`, io_bind/io_limit, iterate, choose, SIMD, tables, token I/O) makes the run 'unsupported' (counted, never a verdict). Every acceptance hole found was re-confirmed on the C the working tree generates, under UBSan, before being treated as genuine (findings/compiler-acceptance-holes-*). The simulated dimension is the call history on persistent receiver state; the program axis is plain seeded generation.",
    "deterministic simulation: seeded public-call histories on persistent receiver state executed by a reference interpreter (model) of programs the real checker accepted, with a derived-range/safety monitor; seeded near-miss program generation",
    "DESIGN.md section 3 D, section 5 C01, Appendix E"))

CHECKS.append(check(
    "C02", "wsim", "exploration",
    "The working tree's checker is built with one observation call injected at check time (go build -overlay; /repo untouched) at the head of bcheckBlock's statement loop and one at its end, reporting the fact list held before every statement and at the end of every block. One run = one program (hand corpus; the C01 near-miss generator; a free-form control-flow generator over =, +=, -=, other compound operators with variable and constant operands, impure calls, field stores, if / else-if / else, labelled while loops with inv and post conditions, break, continue, while-true loops left only by (deep) breaks, asserts; the operator-stress, slice and coroutine generators of C01; an axiom-instance generator that reads lang/check/axioms.md from the working tree and establishes each axiom's premises exactly, or weakened - operator relaxed, operands swapped, premise dropped) given to the checker; an accepted program is executed by the reference interpreter under a seeded history of public calls on a persistent receiver, and each time execution reaches a statement or leaves a block normally - every loop iteration, every call - every recorded fact (if/while conditions, assignment equalities and bounds, rewritten facts, proven asserts and axiom conclusions, reconciled if/else facts, loop inv/post) is evaluated in ideal integers on the concrete state and must be true.",
    "Sampling of programs x call histories. All 20 axioms are reached (per-axiom and per-variant acceptance counts are in the evidence). Facts the evaluator cannot interpret are counted as skipped, never reported (observed: only the step budget). The interpreter shares the front end with the compiler (common-mode). Fact invalidation at suspension points IS reached (coroutines run under a simulated caller that changes arguments and receiver state across resumptions; own probes: suspension keeping facts about args, and yield keeping facts, are caught; keeping facts about `this` is an equivalent mutant because `this` is pointer-typed); io_bind/io_limit, `=?` and iterate are NOT reached. If bcheckBlock no longer has the shape the injected observer needs, the check exits 2 (no verdict). Own probes (facts kept by only one if/else branch; impure call keeps receiver facts; one axiom premise weakened in data.go; loop invariant not re-proven on the implicit continue; wrong sign in the -= rewrite) are each caught by the quick tier.",
    "deterministic simulation: seeded public-call histories on persistent receiver state executed by a reference interpreter (model), with the real checker's per-statement fact lists (observer injected at check time) evaluated as invariants at every executed statement",
    "DESIGN.md section 3 D, section 4, section 5 C02, Appendix E"))

CHECKS.append(check(
    "C04", "wsim", "exploration",
    "One run = one program accepted by the working tree's checker (an operator-stress generator computing with u8, u16, u32 and u64 at once: modular, saturating, bitwise, shift, division and modulus by constants, widening and narrowing conversions, min / max / low_bits / high_bits, compound assignments on narrow types and on array elements, private pure and impure calls, if / else-if / else, counted loops with labelled break and continue including a break out of the enclosing loop; plus the C01 and C02 generators, the slice generator, the hand corpus, and the coroutine generator with I/O) and two to four independent seeded histories of public calls with boundary-biased arguments, each on a freshly initialised persistent receiver (the compile dominates a run's cost; a history costs milliseconds). Each history is executed by the reference interpreter and by the C that the working tree's wuffs-c generates from the same source at check time, compiled by clang-14 (-O0 with ASan+UBSan, or -O2, drawn per run) against the base library generated at check time, and driven by a generated main() that performs exactly the recorded calls. For coroutines the simulated caller's actions (bytes delivered per entry, close, drains, changed arguments, interleaved calls) are recorded and repeated by the C driver on real wuffs_base__io_buffer values. Compared: every return value; for every coroutine entry the status, the source read index and the destination write index; every drained destination byte; then the whole receiver state (every scalar field, every array element) through appended getters. Also reported: a sanitizer report in the C for a history the interpreter executed safely, and generated C that clang rejects.",
    "Sampling of programs x call histories. The interpreter is the reference for 'what the source means' (ideal integers, written from the language documentation; it shares the front end with the compiler) and covers integers, arrays, slices, struct fields, control flow and method calls: `=?`, iterate, choose, SIMD, io_bind/io_limit, token I/O, multi-byte writes and lib/dumbindent formatting are NOT compared (std/ under engine C exercises those paths of cgen only through decoder behaviour). A run in which the interpreter stops with a C01-class violation or leaves its subset, or wuffs-c declines the program, gives no comparison (counted). 'Generated C does not compile' is reported only when clang's first error lies in the generated package file; an error in the harness's main.c is harness trouble (exit 2).",
    "deterministic simulation: one seeded public-call history on persistent receiver state executed by a reference interpreter (model) and by the generated C compiled at check time under sanitizers, differential",
    "DESIGN.md section 3 D, section 5 C04, Appendix E"))

NA_REASONS = {
 "C06": "pure function of two big.Int interval pairs: no stream, state, schedule, fault or history exists for a simulator to control (DESIGN.md section 7)",
 "C10": "static property of an object file (sections, symbols) plus constness of pure methods: decided by inspecting a binary, not by simulating executions (DESIGN.md section 7)",
 "C11": "tokenizer/parser/checker/generator are pure functions of a byte string; 'for every byte string' is input fuzzing with nothing to schedule or fail (DESIGN.md section 7)",
 "C12": "formatters are pure text-to-text functions; idempotence and whitespace-only are input/output relations (DESIGN.md section 7)",
 "C16": "Cut is a pure function of (bytes, limit); the optional writer is a passive sink the property does not let fail (DESIGN.md section 7)",
 "C17": "Encode/Decode map []byte to []byte; no schedule, clock, stream fault or history (DESIGN.md section 7)",
 "C18": "substance is a pure function of the arguments; the call-count clause is a three-state latch with no interleaving, clock or fault dependence (DESIGN.md section 7)",
 "C19": "pure function of (pixels, geometry); buffer-boundary cases are input classes, not histories or faults (DESIGN.md section 7)",
}
PENDING = {
}

def main():
    claimed = {c["property_id"] for c in CHECKS}
    na = []
    for pid in ["C%02d" % i for i in range(1, 21)]:
        if pid in claimed:
            continue
        if pid in NA_REASONS:
            na.append({"property_id": pid, "reason": NA_REASONS[pid]})
        else:
            na.append({"property_id": pid, "reason": PENDING.get(pid, "not claimed yet: the simulation engine for this property (see DESIGN.md sections 3 and 9) is not built at this commit")})
    m = {
        "version": 1,
        "setup_cmd": SETUP,
        "hooks": {
            "guard": "verif",
            "enable": "no hook is committed in /repo at this commit: seams are injected at check time with `go build -overlay` from the working tree (see DESIGN.md section 4)",
            "baseline_off_cmd": "for m in $(cat /w/out/gomods.txt); do MF=$(cd /repo/$m && . /w/out/goenv.sh && gomodflag); (cd /repo/$m && go test $MF -json -vet=off -count=1 -timeout 25m ./...); done",
            "source_commits": [],
            "add_only": True,
        },
        "engines": [
            {"name": "envsim", "path": "/verif/engines/envsim", "serves_properties": ["C20"], "kind_free_text": "the real compiler under seeded map-iteration / directory-enumeration order (rewrite/maprange.go + engines/envsim/rt as a virtual package), environment, cwd and GOMAXPROCS; whole `wuffs gen std/...` runs compared by artefact hash"},
            {"name": "wsim", "path": "/verif/engines/wsim", "serves_properties": ["C01", "C02", "C04"], "kind_free_text": "reference interpreter over the AST returned by the working tree's check.Check (ideal integers), derived-range and safety monitor, seeded near-miss / control-flow / axiom-instance program generators and public-call histories; for C02 the checker's fact lists are observed through rewrite/factobs.go"},
            {"name": "csim", "path": "/verif/engines/csim", "serves_properties": ["C03", "C05", "C07", "C08", "C09"], "kind_free_text": "I/O-delivery schedule simulator: a Go-side producer/consumer drives, call by call, a C driver child (/verif/csim/driver.c) linked against C that `wuffs gen` produces from the working tree at check time; sanitizer and -O2 builds, cached by content hash"},
            {"name": "gosim", "path": "/verif/engines/gosim", "serves_properties": ["C14"], "kind_free_text": "seeded goroutine scheduler (simrt) under the real lib/rac concurrent reader, whose channel constructs are rewritten at check time by /verif/rewrite and injected with go build -overlay"},
            {"name": "disksim", "path": "/verif/engines/disksim", "serves_properties": ["C13", "C15"], "kind_free_text": "simulated storage (fault-injecting io.Writer/TempFile, op-counting ReadSeeker) under the real lib/rac writer and readers"},
        ],
        "checks": CHECKS,
        "not_applicable": na,
        "notes": "Every check rebuilds its engine from /repo's working tree on each invocation. Replay: ./bin/vcheck replay <file>. Known findings: /verif/known_findings.json.",
    }
    json.dump(m, open("/verif/MANIFEST.json", "w"), indent=1)
    print("wrote MANIFEST.json with", len(CHECKS), "checks,", len(na), "not claimed")

if __name__ == "__main__":
    main()
