#!/usr/bin/env python3
"""Regenerates /verif/MANIFEST.json. The data below is the single place where
claims are stated; edit here, run, commit."""
import json, sys

SETUP = "cd /verif && GOFLAGS=-mod=mod GOPROXY=off GOSUMDB=off GOTOOLCHAIN=local go build -o bin/vcheck ./cmd/vcheck"

def check(pid, engine, category, text, note, technique, design_ref):
    return {
        "property_id": pid,
        "quick_cmd": "./bin/vcheck run %s --tier quick" % pid,
        "thorough_cmd": "./bin/vcheck run %s --tier thorough" % pid,
        "evidence_file": "/verif/evidence/%s.json" % pid,
        "replay_cmd_template": "./bin/vcheck replay {path}",
        "engine": engine,
        "level_claimed": {"category": category, "text": text, "design_ref": design_ref},
        "level_note": note,
        "technique": technique,
    }

CHECKS = []
NA = []

CHECKS.append(check(
    "C13", "disksim", "fault_enumeration",
    "Seeded workloads (payload x Write partition x codec x chunk sizing x page size x index location x temp-file flavour x resources) run the real rac.Writer over a simulated disk; fault-free runs are judged by an independent spec validator, an independent decoder and rac.Reader; then every single storage-fault position of the sampled workload (each underlying Write/Read/Seek x each applicable fault kind) is enumerated and the sticky-error oracle applied, plus drawn double faults. Sampling over workloads, exhaustive over single-fault positions per workload.",
    "Trusts: the validator's reading of doc/spec/rac-spec.md; Go's compress/zlib as the independent zlib decoder; faults obey the io.Writer/io.Reader contracts. lz4/zstd leaves are checked structurally and through rac.Reader only (no independent decoder available offline).",
    "deterministic simulation: simulated disk with enumerated fault points + reference model (independent RAC validator/decoder)",
    "DESIGN.md section 3 B, section 5 C13"))

CHECKS.append(check(
    "C15", "disksim", "exploration",
    "Seeded hostile byte strings (valid files from the real writer or node graphs assembled from the spec, with 0-3 structured or raw mutations, checksum repaired, and honest or dishonest claimed sizes) are opened, walked, seeked and decoded through ChunkReader and rac.Reader on an immutable simulated disk whose operation counter is the work clock; oracles: no panic, per-call work budget, yielded chunk invariants (CPrimary low<=high inside the file; DRanges non-empty, ascending, contiguous, ending at DecompressedSize), repeatable decode.",
    "Sampling only. Trusts the work-bound argument in DESIGN.md section 5 C15 (budget met by every spec-legal structure). Files > 64 KiB of output are cut off by the harness.",
    "deterministic simulation: op-counting simulated disk (work clock) + stored-byte corruption faults before open",
    "DESIGN.md section 3 B, section 5 C15"))

CHECKS.append(check(
    "C14", "gosim", "exploration",
    "The real lib/rac Reader runs with conc_reader.go's go statements, channel operations and selects rewritten (type-driven, at check time, from the working tree) onto a seeded scheduler in which exactly one goroutine runs at a time and every scheduling decision is a tape draw; seeded call histories (Read/Seek/SeekRange/Close/CloseWithoutWaiting, biased to chunk boundaries and to seeks with work in flight) over several file shapes and Concurrency 0..8 are compared call by call with an in-memory reader; further oracles: deadlock, step-budget livelock, goroutine leak after Close, panic in any goroutine, and (a quarter of the workers, -race build) data races judged against channel-induced happens-before only. Three uniform/priority/sticky scheduling policies, virtual disk latency and a stalled worker as faults.",
    "Sampling of schedules and histories, not enumeration. Trusts simrt's channel semantics, which are themselves checked (engines/gosim/simrt/simrt_test.go: exhaustive enumeration of simrt's schedules on 400 random channel programs equals an independent reference semantics, and 2400 executions on the real Go runtime stay inside that reference). If lib/rac starts using sync, time, context or reflect the rewriter refuses and the check exits 2 (no verdict) rather than guess.",
    "deterministic simulation: seeded goroutine scheduler over rewritten channel operations + reference model (in-memory reader) + in-simulation race detection",
    "DESIGN.md section 3 A, section 5 C14, Appendices A and G"))

NA_REASONS = {
 "C06": "pure function of two big.Int interval pairs: no stream, state, schedule, fault or history exists for a simulator to control (DESIGN.md section 7)",
 "C10": "static property of an object file (sections, symbols) plus constness of pure methods: decided by inspecting a binary, not by simulating executions (DESIGN.md section 7)",
 "C11": "tokenizer/parser/checker/generator are pure functions of a byte string; 'for every byte string' is input fuzzing with nothing to schedule or fail (DESIGN.md section 7)",
 "C12": "formatters are pure text-to-text functions; idempotence and whitespace-only are input/output relations (DESIGN.md section 7)",
 "C16": "Cut is a pure function of (bytes, limit); the optional writer is a passive sink the property does not let fail (DESIGN.md section 7)",
 "C17": "Encode/Decode map []byte to []byte; no schedule, clock, stream fault or history (DESIGN.md section 7)",
 "C18": "substance is a pure function of the arguments; the call-count clause is a three-state latch with no interleaving, clock or fault dependence (DESIGN.md section 7)",
 "C19": "pure function of (pixels, geometry); buffer-boundary cases are input classes, not histories or faults (DESIGN.md section 7)",
}
PENDING = {
}

def main():
    claimed = {c["property_id"] for c in CHECKS}
    na = []
    for pid in ["C%02d" % i for i in range(1, 21)]:
        if pid in claimed:
            continue
        if pid in NA_REASONS:
            na.append({"property_id": pid, "reason": NA_REASONS[pid]})
        else:
            na.append({"property_id": pid, "reason": PENDING.get(pid, "not claimed yet: the simulation engine for this property (see DESIGN.md sections 3 and 9) is not built at this commit")})
    m = {
        "version": 1,
        "setup_cmd": SETUP,
        "hooks": {
            "guard": "verif",
            "enable": "no hook is committed in /repo at this commit: seams are injected at check time with `go build -overlay` from the working tree (see DESIGN.md section 4)",
            "baseline_off_cmd": "for m in $(cat /w/out/gomods.txt); do MF=$(cd /repo/$m && . /w/out/goenv.sh && gomodflag); (cd /repo/$m && go test $MF -json -vet=off -count=1 -timeout 25m ./...); done",
            "source_commits": [],
            "add_only": True,
        },
        "engines": [
            {"name": "gosim", "path": "/verif/engines/gosim", "serves_properties": ["C14"], "kind_free_text": "seeded goroutine scheduler (simrt) under the real lib/rac concurrent reader, whose channel constructs are rewritten at check time by /verif/rewrite and injected with go build -overlay"},
            {"name": "disksim", "path": "/verif/engines/disksim", "serves_properties": ["C13", "C15"], "kind_free_text": "simulated storage (fault-injecting io.Writer/TempFile, op-counting ReadSeeker) under the real lib/rac writer and readers"},
        ],
        "checks": CHECKS,
        "not_applicable": na,
        "notes": "Every check rebuilds its engine from /repo's working tree on each invocation. Replay: ./bin/vcheck replay <file>. Known findings: /verif/known_findings.json.",
    }
    json.dump(m, open("/verif/MANIFEST.json", "w"), indent=1)
    print("wrote MANIFEST.json with", len(CHECKS), "checks,", len(na), "not claimed")

if __name__ == "__main__":
    main()
