// genpayload writes sim.GenBytes(seed, n, class) to stdout: lets a shell
// reproduce, byte for byte, a payload named in a replay file's description.
package main

import (
	"fmt"
	"os"
	"strconv"

	"verif/sim"
)

func main() {
	if len(os.Args) != 4 {
		fmt.Fprintln(os.Stderr, "usage: genpayload <class> <len> <seed>")
		os.Exit(2)
	}
	c, _ := strconv.Atoi(os.Args[1])
	n, _ := strconv.Atoi(os.Args[2])
	s, _ := strconv.ParseUint(os.Args[3], 10, 64)
	os.Stdout.Write(sim.GenBytes(s, n, c))
}
