#!/bin/bash
# verify_gen_mutant.sh <worktree> <mutant-dir> <demo-run-command...>
# Independently re-checks a seeded mutant that acts through generated C:
#   pristine tree: build wuffs tools, `wuffs gen std/...`, compile demo.c, run it
#   mutated tree : apply patch, go build + go test (existing suite), build tools,
#                  `wuffs gen std/...` (must be accepted), compile demo.c, run it
# The demo is compiled with -DWUFFS_SNAPSHOT pointing at the generated release.
# The demo command is run inside the mutant directory with DEMO=<binary>,
# SNAP=<generated release file> and LABEL=pristine|mutant in its environment.
# Leaves the worktree pristine. Everything it creates lives in <mutant-dir>/verify.
set -u
W=${1:?worktree}; M=${2:?mutant dir}; shift 2
export GOFLAGS=-mod=mod GOPROXY=off GOSUMDB=off GOTOOLCHAIN=local ASAN_OPTIONS=detect_leaks=0
V="$M/verify"; rm -rf "${V:?}"; mkdir -p "$V"
cd "$W" || exit 2
test -z "$(git status --short)" || { echo "worktree not pristine"; exit 2; }
stage() { # $1 = label
  local L=$1; shift
  go build -o "$V/bin-$L/wuffs" ./cmd/wuffs && go build -o "$V/bin-$L/wuffs-c" ./cmd/wuffs-c || { echo "[$L] tools do not build"; return 1; }
  git checkout -- go.mod 2>/dev/null
  mkdir -p "$V/root-$L" && cp -r "$W/std" "$V/root-$L/std" && cp "$W/wuffs-root-directory.txt" "$V/root-$L/"
  (cd "$V/root-$L" && PATH="$V/bin-$L:$PATH" timeout 300 "$V/bin-$L/wuffs" gen std/... > "$V/gen-$L.log" 2>&1) || { echo "[$L] wuffs gen FAILED (the Wuffs compiler rejects the tree)"; tail -3 "$V/gen-$L.log"; return 1; }
  echo "[$L] wuffs gen ok"
  clang-14 -O1 -g -fsanitize=address,undefined -fno-sanitize=pointer-overflow -DWUFFS_SNAPSHOT="\"$V/root-$L/release/c/wuffs-unsupported-snapshot.c\"" -o "$V/demo-$L" "$M/demo.c" > "$V/cc-$L.log" 2>&1 || { echo "[$L] demo does not compile"; tail -5 "$V/cc-$L.log"; return 1; }
  (cd "$M" && DEMO="$V/demo-$L" SNAP="$V/root-$L/release/c/wuffs-unsupported-snapshot.c" LABEL="$L" timeout 600 "$@" > "$V/run-$L.txt" 2>&1; echo "[$L] demo exit=$?")
}
shift 0
stage pristine "$@"
git apply "$M/patch.diff" || { echo "patch does not apply"; exit 2; }
echo "[mutant] patch applied: $(git status --short | tr '\n' ' ')"
go build ./... > "$V/gobuild.log" 2>&1 && echo "[mutant] go build ok" || { echo "[mutant] go build FAILED"; tail -3 "$V/gobuild.log"; }
go test -vet=off -count=1 ./... > "$V/gotest.log" 2>&1; echo "[mutant] existing tests: ok=$(grep -c '^ok' "$V/gotest.log") FAIL=$(grep -c FAIL "$V/gotest.log")"
git checkout -- go.mod 2>/dev/null
stage mutant "$@"
git checkout -- . ; echo "worktree after: [$(git status --short)]"
rm -rf "$V"/bin-* "$V"/root-*
