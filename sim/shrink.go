package sim

// Shrink minimises a failing tape. test re-executes the system from a tape and
// returns the violation class ("" when the run passes). A candidate is kept
// only when it fails with the same class as the original, so that shrinking
// never wanders from one bug to another. Bounded by maxTries executions.
//
// Passes (repeated to a fixed point or until the budget is spent):
//  1. truncate the tail (a replayed tape yields 0 once exhausted);
//  2. delete spans of decreasing length;
//  3. zero single entries (0 = the "simple" choice by engine convention);
//  4. halve / decrement single entries.
func Shrink(tape []uint32, want string, maxTries int, test func([]uint32) string) ([]uint32, int) {
	cur := append([]uint32(nil), tape...)
	tries := 0
	try := func(c []uint32) bool {
		if tries >= maxTries {
			return false
		}
		tries++
		return test(c) == want
	}
	improved := true
	for improved && tries < maxTries {
		improved = false
		// 1. tail truncation by halves.
		for n := len(cur) / 2; n >= 1 && len(cur) > 0; n /= 2 {
			for len(cur) >= n {
				c := cur[:len(cur)-n]
				if try(c) {
					cur = append([]uint32(nil), c...)
					improved = true
				} else {
					break
				}
			}
		}
		// Trailing zeroes are equivalent to exhaustion.
		for len(cur) > 0 && cur[len(cur)-1] == 0 {
			cur = cur[:len(cur)-1]
		}
		// 2. span deletion.
		for span := 32; span >= 1; span /= 2 {
			for i := 0; i+span <= len(cur) && tries < maxTries; {
				c := append(append([]uint32(nil), cur[:i]...), cur[i+span:]...)
				if try(c) {
					cur = c
					improved = true
				} else {
					i += span
				}
			}
		}
		// 3. zero entries.
		for i := 0; i < len(cur) && tries < maxTries; i++ {
			if cur[i] == 0 {
				continue
			}
			c := append([]uint32(nil), cur...)
			c[i] = 0
			if try(c) {
				cur = c
				improved = true
			}
		}
		// 4. reduce entries.
		for i := 0; i < len(cur) && tries < maxTries; i++ {
			for cur[i] > 0 && tries < maxTries {
				c := append([]uint32(nil), cur...)
				if c[i] > 16 {
					c[i] /= 2
				} else {
					c[i]--
				}
				if try(c) {
					cur = c
					improved = true
				} else {
					break
				}
			}
		}
	}
	return cur, tries
}
