// Package sim is the shared core of the deterministic-simulation engines:
// the choice tape (the single source of every random decision), generic tape
// shrinking, replay files, evidence files and the known-findings register.
//
// Standard library only. Nothing in this package reads a clock or a global
// random source on a path that influences a simulated execution.
package sim

import (
	"encoding/binary"
	"hash/fnv"
)

// splitmix64 is the only PRNG used anywhere in /verif.
func splitmix64(x *uint64) uint64 {
	*x += 0x9E3779B97F4A7C15
	z := *x
	z = (z ^ (z >> 30)) * 0xBF58476D1CE4E5B9
	z = (z ^ (z >> 27)) * 0x94D049BB133111EB
	return z ^ (z >> 31)
}

// Mix derives an independent stream seed from (seed, a, b).
func Mix(seed uint64, a uint64, b uint64) uint64 {
	x := seed ^ 0xD1B54A32D192ED03
	x ^= splitmix64(&x) + a*0x9E3779B97F4A7C15
	x ^= splitmix64(&x) + b*0xC2B2AE3D27D4EB4F
	return splitmix64(&x)
}

// Tape is the choice tape. In generation mode each Draw takes the next PRNG
// value and records it; in replay mode each Draw reads the next recorded value
// (0 once the recording is exhausted). Values are reduced modulo the bound at
// the point of use, so any []uint32 is a valid tape: this is what makes
// deleting spans and shrinking entries always produce a runnable execution.
type Tape struct {
	state  uint64
	replay bool
	in     []uint32
	pos    int
	rec    []uint32
	over   int // draws past the end of a replayed tape
}

// NewTape returns a generating tape.
func NewTape(seed uint64) *Tape { return &Tape{state: seed} }

// ReplayTape returns a tape that replays vals.
func ReplayTape(vals []uint32) *Tape { return &Tape{replay: true, in: vals} }

// Recorded returns the values drawn so far (generation: as generated; replay:
// as consumed, reduced to the consumed prefix).
func (t *Tape) Recorded() []uint32 { return t.rec }

// Overrun reports how many draws were made past the end of a replayed tape.
func (t *Tape) Overrun() int { return t.over }

// next draws one value; n == 0 means the full 32-bit range. The value is
// recorded *after* reduction, so recorded tapes hold the decisions themselves
// (small numbers) and halving an entry halves the decision.
func (t *Tape) next(n uint32) uint32 {
	var v uint32
	if t.replay {
		if t.pos < len(t.in) {
			v = t.in[t.pos]
			t.pos++
		} else {
			t.over++
		}
	} else {
		v = uint32(splitmix64(&t.state) >> 32)
	}
	if n != 0 {
		v %= n
	}
	t.rec = append(t.rec, v)
	return v
}

func (t *Tape) raw() uint32 { return t.next(0) }

// Draw returns a value in [0, n). n <= 1 returns 0 without consuming a draw
// only when n <= 0 is a caller bug; n == 1 still consumes nothing.
func (t *Tape) Draw(n int) int {
	if n <= 1 {
		return 0
	}
	return int(t.next(uint32(n)))
}

// Range returns a value in [lo, hi] inclusive.
func (t *Tape) Range(lo, hi int) int {
	if hi <= lo {
		return lo
	}
	return lo + t.Draw(hi-lo+1)
}

// Chance is true with probability num/den. The zero tape value means false,
// so shrinking removes faults rather than adding them.
func (t *Tape) Chance(num, den int) bool {
	if num <= 0 {
		return false
	}
	if num >= den {
		return true
	}
	return t.Draw(den) >= den-num
}

// Bool is Chance(1,2).
func (t *Tape) Bool() bool { return t.Draw(2) == 1 }

// Pick returns one of the listed weights' indexes; index 0 is the "simple"
// choice (what a zeroed tape selects).
func (t *Tape) Pick(weights ...int) int {
	total := 0
	for _, w := range weights {
		total += w
	}
	v := t.Draw(total)
	for i, w := range weights {
		if v < w {
			return i
		}
		v -= w
	}
	return 0
}

// Size draws a length biased toward small values and toward boundary values:
// it first draws a magnitude class, then a value inside it. max is inclusive.
func (t *Tape) Size(max int) int {
	if max <= 0 {
		return 0
	}
	bits := 0
	for (1 << uint(bits)) <= max {
		bits++
	}
	b := t.Draw(bits + 1)
	if b == 0 {
		return 0
	}
	lo := 1 << uint(b-1)
	hi := (1 << uint(b)) - 1
	if hi > max {
		hi = max
	}
	if lo > hi {
		lo = hi
	}
	return t.Range(lo, hi)
}

// Bytes fills a deterministic byte string of length n from one draw (the
// content stream is derived from that draw, so that a 100 KiB payload costs one
// tape entry, not 100 K).
func (t *Tape) Bytes(n int, class int) []byte {
	seed := uint64(t.raw())
	return GenBytes(seed, n, class)
}

// Payload classes for GenBytes.
const (
	PayRandom = iota
	PayText
	PayZeroHeavy
	PayRepeat
	PayFF
	PayZero
	NumPayClasses
)

// GenBytes deterministically expands (seed, class) to n bytes.
func GenBytes(seed uint64, n int, class int) []byte {
	b := make([]byte, n)
	s := seed*2654435761 + 12345
	switch class {
	case PayRandom:
		for i := range b {
			b[i] = byte(splitmix64(&s) >> 56)
		}
	case PayText:
		const words = "the quick brown fox jumps over the lazy dog and wuffs the library pack my box with five dozen liquor jugs "
		i := 0
		for i < n {
			off := int(splitmix64(&s)>>33) % len(words)
			l := 1 + int(splitmix64(&s)>>33)%24
			for j := 0; j < l && i < n; j++ {
				b[i] = words[(off+j)%len(words)]
				i++
			}
		}
	case PayZeroHeavy:
		// Alternating runs of zeroes and non-zero bytes with run lengths
		// from 1 to ~4096, so that zero runs straddle chunk and Write
		// boundaries of every size used.
		i := 0
		zero := splitmix64(&s)&1 == 0
		for i < n {
			k := uint(splitmix64(&s)>>60) % 13
			l := 1 + int(splitmix64(&s)>>33)%(1<<k)
			for j := 0; j < l && i < n; j++ {
				if zero {
					b[i] = 0
				} else {
					b[i] = 1 + byte(splitmix64(&s)>>56)%255
				}
				i++
			}
			zero = !zero
		}
	case PayRepeat:
		p := 1 + int(splitmix64(&s)>>33)%17
		for i := range b {
			b[i] = byte('a' + (i % p))
		}
	case PayFF:
		for i := range b {
			b[i] = 0xFF
		}
	case PayZero:
	}
	return b
}

// Hash64 is FNV-1a over parts, used for fingerprints.
func Hash64(parts ...[]byte) uint64 {
	h := fnv.New64a()
	for _, p := range parts {
		h.Write(p)
	}
	return h.Sum64()
}

// HashU32s fingerprints a tape.
func HashU32s(v []uint32) uint64 {
	h := fnv.New64a()
	var b [4]byte
	for _, x := range v {
		binary.LittleEndian.PutUint32(b[:], x)
		h.Write(b[:])
	}
	return h.Sum64()
}

// FP is an incremental fingerprint for schedules / traces.
type FP struct{ h uint64 }

func NewFP() FP { return FP{14695981039346656037} }
func (f *FP) Add(v uint64) {
	for i := 0; i < 8; i++ {
		f.h ^= v & 0xFF
		f.h *= 1099511628211
		v >>= 8
	}
}
func (f *FP) AddStr(s string) {
	for i := 0; i < len(s); i++ {
		f.h ^= uint64(s[i])
		f.h *= 1099511628211
	}
}
func (f FP) Sum() uint64 { return f.h }
