package sim

import (
	"encoding/json"
	"os"
)

// KnownFinding is one entry of /verif/known_findings.json. The file is
// committed and never written at run time. status "open" entries suppress a
// VIOLATION whose key matches exactly (and are printed as KNOWN-FINDING lines);
// status "fixed" entries are a record only and suppress nothing.
type KnownFinding struct {
	Property string `json:"property"`
	Key      string `json:"key"`
	Status   string `json:"status"`
	Commit   string `json:"commit,omitempty"`
	What     string `json:"what"`
}

type KnownFindings struct {
	Findings []KnownFinding `json:"findings"`
}

func LoadKnownFindings(path string) *KnownFindings {
	kf := &KnownFindings{}
	b, err := os.ReadFile(path)
	if err != nil {
		return kf
	}
	_ = json.Unmarshal(b, kf)
	return kf
}

func (k *KnownFindings) Open(prop string) []KnownFinding {
	var out []KnownFinding
	for _, f := range k.Findings {
		if f.Property == prop && f.Status == "open" {
			out = append(out, f)
		}
	}
	return out
}

func (k *KnownFindings) IsOpen(prop, key string) bool {
	for _, f := range k.Findings {
		if f.Property == prop && f.Status == "open" && f.Key == key {
			return true
		}
	}
	return false
}
