package sim

import (
	"encoding/binary"
	"encoding/json"
	"flag"
	"fmt"
	"os"
	"path/filepath"
	"runtime/pprof"
	"sort"
	"time"
)

// Outcome is what one simulated run reports.
type Outcome struct {
	// Class is "" when the property held; otherwise a short stable name of
	// the violated oracle (used to keep shrinking on the same bug).
	Class string `json:"class,omitempty"`
	// Key identifies the specific failing input/history family; it is what
	// known_findings.json matches on. Defaults to Class.
	Key    string `json:"key,omitempty"`
	Detail string `json:"detail,omitempty"`

	Nontrivial bool             `json:"nontrivial"`
	FP         uint64           `json:"fp"`
	Steps      int64            `json:"steps"`
	Ticks      int64            `json:"ticks"`
	Faults     map[string]int64 `json:"faults,omitempty"`
	Probes     map[string]int64 `json:"probes,omitempty"`
	States     []uint64         `json:"-"`
	// Trace is the human-readable expansion; engines fill it only when
	// RunOpt.Verbose is set (replay, samples).
	Trace  []string    `json:"trace,omitempty"`
	Sample interface{} `json:"sample,omitempty"`
}

func (o *Outcome) Fault(k string)           { o.addTo(&o.Faults, k, 1) }
func (o *Outcome) Probe(k string)           { o.addTo(&o.Probes, k, 1) }
func (o *Outcome) ProbeN(k string, n int64) { o.addTo(&o.Probes, k, n) }
func (o *Outcome) addTo(m *map[string]int64, k string, n int64) {
	if *m == nil {
		*m = map[string]int64{}
	}
	(*m)[k] += n
}
func (o *Outcome) Tracef(format string, a ...interface{}) {
	o.Trace = append(o.Trace, fmt.Sprintf(format, a...))
}

// Fail records the first violation only.
func (o *Outcome) Fail(class, key, format string, a ...interface{}) {
	if o.Class != "" {
		return
	}
	o.Class = class
	o.Key = key
	if key == "" {
		o.Key = class
	}
	o.Detail = fmt.Sprintf(format, a...)
}

// RunOpt is what an engine's run function is told.
type RunOpt struct {
	Prop    string
	Tier    string
	Verbose bool
	Run     int
	// Mode selects an engine-specific sub-check (swarm testing: the worker
	// framework cycles through the engine's declared modes).
	Mode string
	// Extra carries engine configuration from the driver (paths to built
	// artefacts etc).
	Extra map[string]string
}

// RunFunc executes one simulated run from a tape.
type RunFunc func(t *Tape, opt RunOpt) *Outcome

// Violation is a reported (already minimised) failure.
type Violation struct {
	Class    string `json:"class"`
	Key      string `json:"key"`
	Detail   string `json:"detail"`
	Run      int    `json:"run"`
	Mode     string `json:"mode"`
	Replay   string `json:"replay"`
	TapeLen  int    `json:"tape_len"`
	OrigLen  int    `json:"orig_tape_len"`
	ShrinkN  int    `json:"shrink_tries"`
	Replayed bool   `json:"replayed_same"`
}

// WorkerResult is what a worker process writes for the driver.
type WorkerResult struct {
	Prop       string            `json:"prop"`
	Seed       uint64            `json:"seed"`
	Worker     int               `json:"worker"`
	Runs       int64             `json:"runs"`
	Nontrivial int64             `json:"nontrivial_runs"`
	Steps      int64             `json:"steps"`
	Ticks      int64             `json:"ticks"`
	Faults     map[string]int64  `json:"faults"`
	Probes     map[string]int64  `json:"probes"`
	ModeRuns   map[string]int64  `json:"mode_runs"`
	Violations []Violation       `json:"violations"`
	Samples    []json.RawMessage `json:"samples"`
	Truncated  bool              `json:"truncated_by_time"`
	WallS      float64           `json:"wall_s"`
	FPFile     string            `json:"fp_file"`
	StateFile  string            `json:"state_file"`
}

// ReplayFile is the on-disk replay format.
type ReplayFile struct {
	Property string            `json:"property"`
	Engine   string            `json:"engine"`
	Seed     uint64            `json:"seed"`
	Worker   int               `json:"worker"`
	Run      int               `json:"run"`
	Mode     string            `json:"mode"`
	Tier     string            `json:"tier"`
	Extra    map[string]string `json:"extra,omitempty"`
	Class    string            `json:"class"`
	Key      string            `json:"key"`
	Detail   string            `json:"detail"`
	Tape     []uint32          `json:"tape"`
	Trace    []string          `json:"trace"`
}

// EngineSpec describes an engine binary to WorkerMain.
type EngineSpec struct {
	Name  string
	Props map[string]PropSpec
}

// PropSpec is one property served by an engine.
type PropSpec struct {
	Run   RunFunc
	Modes []string // cycled through by run index; at least one
	// NoReexec lists violation classes whose oracle cannot fire a second
	// time in the same process; they are neither shrunk nor re-checked
	// in-process.
	NoReexec map[string]bool
}

func writeU64s(path string, set map[uint64]struct{}) error {
	keys := make([]uint64, 0, len(set))
	for k := range set {
		keys = append(keys, k)
	}
	sort.Slice(keys, func(i, j int) bool { return keys[i] < keys[j] })
	b := make([]byte, 8*len(keys))
	for i, k := range keys {
		binary.LittleEndian.PutUint64(b[8*i:], k)
	}
	return os.WriteFile(path, b, 0o644)
}

// ReadU64s loads a set written by a worker.
func ReadU64s(path string, into map[uint64]struct{}) error {
	b, err := os.ReadFile(path)
	if err != nil {
		return err
	}
	for i := 0; i+8 <= len(b); i += 8 {
		into[binary.LittleEndian.Uint64(b[i:])] = struct{}{}
	}
	return nil
}

func parseExtra(s string) map[string]string {
	m := map[string]string{}
	if s == "" {
		return m
	}
	_ = json.Unmarshal([]byte(s), &m)
	return m
}

// WorkerMain is the main function of every engine binary.
//
//	<bin> worker -prop C13 -seed 1 -worker 3 -nworkers 16 -runs 500 -maxsec 60 -tier quick -out DIR -replays DIR
//	<bin> replay FILE
//
// Exit status: 0 normally (violations are reported in the result file, the
// driver decides); 2 on harness trouble. `replay` exits 1 when the recorded
// violation class reproduces, 0 when the run passes, 3 when it fails
// differently.
func WorkerMain(spec EngineSpec) {
	if len(os.Args) < 2 {
		fmt.Fprintln(os.Stderr, "usage: worker|replay")
		os.Exit(2)
	}
	switch os.Args[1] {
	case "worker":
		workerCmd(spec, os.Args[2:])
	case "replay":
		replayCmd(spec, os.Args[2:])
	default:
		fmt.Fprintln(os.Stderr, "unknown command", os.Args[1])
		os.Exit(2)
	}
}

func replayCmd(spec EngineSpec, args []string) {
	fs := flag.NewFlagSet("replay", flag.ExitOnError)
	extra := fs.String("extra", "", "json map overriding the replay file's engine paths")
	quiet := fs.Bool("quiet", false, "no trace")
	fs.Parse(args)
	if fs.NArg() != 1 {
		fmt.Fprintln(os.Stderr, "usage: replay [-extra json] FILE")
		os.Exit(2)
	}
	b, err := os.ReadFile(fs.Arg(0))
	if err != nil {
		fmt.Fprintln(os.Stderr, err)
		os.Exit(2)
	}
	var rf ReplayFile
	if err := json.Unmarshal(b, &rf); err != nil {
		fmt.Fprintln(os.Stderr, err)
		os.Exit(2)
	}
	ps, ok := spec.Props[rf.Property]
	if !ok {
		fmt.Fprintf(os.Stderr, "engine %s does not serve %s\n", spec.Name, rf.Property)
		os.Exit(2)
	}
	ex := rf.Extra
	if ex == nil {
		ex = map[string]string{}
	}
	for k, v := range parseExtra(*extra) {
		ex[k] = v
	}
	opt := RunOpt{Prop: rf.Property, Tier: rf.Tier, Verbose: true, Run: rf.Run, Mode: rf.Mode, Extra: ex}
	out := ps.Run(ReplayTape(rf.Tape), opt)
	if !*quiet {
		for _, l := range out.Trace {
			fmt.Println(l)
		}
	}
	fmt.Printf("replay: property=%s recorded_class=%q observed_class=%q key=%q\n", rf.Property, rf.Class, out.Class, out.Key)
	if out.Detail != "" {
		fmt.Println("detail:", out.Detail)
	}
	switch {
	case out.Class == "":
		os.Exit(0)
	case out.Class == rf.Class:
		os.Exit(1)
	default:
		os.Exit(3)
	}
}

func workerCmd(spec EngineSpec, args []string) {
	fs := flag.NewFlagSet("worker", flag.ExitOnError)
	prop := fs.String("prop", "", "property id")
	seed := fs.Uint64("seed", 1, "VERIF_SEED")
	worker := fs.Int("worker", 0, "worker index")
	nworkers := fs.Int("nworkers", 1, "number of workers")
	runs := fs.Int("runs", 100, "total runs across all workers")
	maxsec := fs.Float64("maxsec", 600, "wall-clock cap for this worker")
	tier := fs.String("tier", "quick", "tier")
	outDir := fs.String("out", ".", "directory for result files")
	replays := fs.String("replays", ".", "directory for replay files")
	extra := fs.String("extra", "", "json map of engine configuration")
	shrinkTries := fs.Int("shrink", 400, "max executions spent minimising one failure")
	maxViol := fs.Int("maxviol", 4, "stop after this many distinct violations")
	nsamples := fs.Int("samples", 2, "sample runs to write out")
	knownFlag := fs.String("known", "", "json list of violation keys that are open known findings: observed and counted, but neither minimised nor written as replay files")
	cpuprof := fs.String("cpuprofile", "", "write a CPU profile (harness tuning only)")
	fs.Parse(args)
	if *cpuprof != "" {
		f, err := os.Create(*cpuprof)
		if err == nil {
			pprof.StartCPUProfile(f)
			defer pprof.StopCPUProfile()
		}
	}

	ps, ok := spec.Props[*prop]
	if !ok {
		fmt.Fprintf(os.Stderr, "engine %s does not serve %q\n", spec.Name, *prop)
		os.Exit(2)
	}
	if len(ps.Modes) == 0 {
		ps.Modes = []string{""}
	}
	ex := parseExtra(*extra)

	res := WorkerResult{Prop: *prop, Seed: *seed, Worker: *worker,
		Faults: map[string]int64{}, Probes: map[string]int64{}, ModeRuns: map[string]int64{}}
	fps := map[uint64]struct{}{}
	states := map[uint64]struct{}{}
	seenKeys := map[string]bool{}
	known := map[string]bool{}
	if *knownFlag != "" {
		var ks []string
		if json.Unmarshal([]byte(*knownFlag), &ks) == nil {
			for _, k := range ks {
				known[k] = true
			}
		}
	}
	start := time.Now()

	for run := *worker; run < *runs; run += *nworkers {
		if time.Since(start).Seconds() > *maxsec {
			res.Truncated = true
			break
		}
		// Rotate the mode assignment so that every worker sees every mode
		// even when nworkers is a multiple of len(Modes). A function of the
		// run index only, so (seed, run) fixes the execution.
		mode := ps.Modes[(run+run/16)%len(ps.Modes)]
		opt := RunOpt{Prop: *prop, Tier: *tier, Run: run, Mode: mode, Extra: ex}
		wantSample := len(res.Samples) < *nsamples
		opt.Verbose = wantSample
		tape := NewTape(Mix(*seed, uint64(run), 0x5EED))
		t0 := time.Now()
		out := ps.Run(tape, opt)
		if d := time.Since(t0).Seconds(); d > slowRunSeconds {
			fmt.Fprintf(os.Stderr, "slow run: prop=%s seed=%d run=%d mode=%s %.1fs sample=%v\n", *prop, *seed, run, mode, d, out.Sample)
		}
		res.Runs++
		res.ModeRuns[mode]++
		res.Steps += out.Steps
		res.Ticks += out.Ticks
		for k, v := range out.Faults {
			res.Faults[k] += v
		}
		for k, v := range out.Probes {
			res.Probes[k] += v
		}
		for _, s := range out.States {
			states[s] = struct{}{}
		}
		if out.Nontrivial {
			res.Nontrivial++
			fps[out.FP] = struct{}{}
		}
		if wantSample && out.Class == "" && out.Nontrivial {
			smp := map[string]interface{}{"run": run, "mode": mode, "tape_len": len(tape.Recorded()), "trace": capTrace(out.Trace, 60)}
			if out.Sample != nil {
				smp["case"] = out.Sample
			}
			if b, err := json.Marshal(smp); err == nil {
				res.Samples = append(res.Samples, b)
			}
		}
		if out.Class == "" {
			continue
		}
		if seenKeys[out.Class+"|"+out.Key] {
			continue
		}
		seenKeys[out.Class+"|"+out.Key] = true
		if known[out.Key] {
			// An open known finding: the driver prints it as KNOWN-FINDING and
			// discards it, so no minimisation and no replay file. It does not
			// count toward maxviol either (it must not stop the search for
			// other violations).
			res.Violations = append(res.Violations, Violation{Class: out.Class, Key: out.Key, Detail: out.Detail, Run: run, Mode: mode})
			continue
		}

		// Minimise, then re-execute the minimised tape verbosely.
		//
		// What is reported is always the class/key/detail that was actually
		// OBSERVED (first on the generated tape, then on the minimised one) -
		// never a class that a re-execution failed to produce. Some oracles
		// cannot fire twice in one process (the race detector reports each
		// race once per process): those classes are listed in
		// PropSpec.NoReexec, are not shrunk, and carry Replayed=false so that
		// the driver's fresh-process replay is the only thing that can
		// confirm them.
		orig := append([]uint32(nil), tape.Recorded()...)
		sopt := opt
		sopt.Verbose = false
		vopt := opt
		vopt.Verbose = true
		min, tries := orig, 0
		rep := out // the observation being reported
		replayed := false
		if !ps.NoReexec[out.Class] {
			min, tries = Shrink(orig, out.Class, *shrinkTries, func(c []uint32) string {
				return ps.Run(ReplayTape(c), sopt).Class
			})
			final := ps.Run(ReplayTape(min), vopt)
			if final.Class != out.Class {
				// The minimised tape does not reproduce: fall back to the
				// tape that did fail.
				min = orig
				final = ps.Run(ReplayTape(min), vopt)
			}
			if final.Class == out.Class {
				rep = final
				again := ps.Run(ReplayTape(min), sopt)
				replayed = again.Class == final.Class && again.Key == final.Key
			}
			// else: not reproducible in-process at all; report the original
			// observation with replayed=false and let the driver decide.
		}
		if rep.Class == "" {
			fmt.Fprintln(os.Stderr, "sim: internal error: violation with an empty class")
			os.Exit(2)
		}
		rf := ReplayFile{Property: *prop, Engine: spec.Name, Seed: *seed, Worker: *worker, Run: run,
			Mode: mode, Tier: *tier, Extra: ex, Class: rep.Class, Key: rep.Key, Detail: rep.Detail,
			Tape: min, Trace: capTrace(rep.Trace, 400)}
		name := fmt.Sprintf("%s-%d-%d.json", *prop, *seed, run)
		path := filepath.Join(*replays, name)
		b, _ := json.MarshalIndent(rf, "", " ")
		if err := os.WriteFile(path, b, 0o644); err != nil {
			fmt.Fprintln(os.Stderr, "cannot write replay:", err)
			os.Exit(2)
		}
		res.Violations = append(res.Violations, Violation{Class: rep.Class, Key: rep.Key, Detail: rep.Detail,
			Run: run, Mode: mode, Replay: path, TapeLen: len(min), OrigLen: len(orig), ShrinkN: tries,
			Replayed: replayed})
		fresh := 0
		for _, v := range res.Violations {
			if !known[v.Key] {
				fresh++
			}
		}
		if fresh >= *maxViol {
			break
		}
	}
	res.WallS = time.Since(start).Seconds()
	res.FPFile = filepath.Join(*outDir, fmt.Sprintf("w%d.fps", *worker))
	res.StateFile = filepath.Join(*outDir, fmt.Sprintf("w%d.states", *worker))
	if err := writeU64s(res.FPFile, fps); err != nil {
		fmt.Fprintln(os.Stderr, err)
		os.Exit(2)
	}
	if err := writeU64s(res.StateFile, states); err != nil {
		fmt.Fprintln(os.Stderr, err)
		os.Exit(2)
	}
	b, _ := json.Marshal(res)
	if err := os.WriteFile(filepath.Join(*outDir, fmt.Sprintf("w%d.json", *worker)), b, 0o644); err != nil {
		fmt.Fprintln(os.Stderr, err)
		os.Exit(2)
	}
}

// slowRunSeconds is the threshold above which a run is logged to stderr (a
// diagnostic for harness cost control; it never influences a verdict).
const slowRunSeconds = 5.0

func capTrace(t []string, n int) []string {
	if len(t) <= n {
		return t
	}
	out := append([]string(nil), t[:n/2]...)
	out = append(out, fmt.Sprintf("... (%d lines elided) ...", len(t)-n))
	return append(out, t[len(t)-n/2:]...)
}
