package main

func init() {
	register(&propDef{
		ID: "C13", Engine: "disksim", Pkg: "./engines/disksim", Level: "fault_enumeration",
		Runs:   map[string]int{"quick": 2400, "thorough": 60000},
		MaxSec: map[string]float64{"quick": 150, "thorough": 2400},
		Rule: "one run = one tape-drawn workload (payload class/length, partition into Write calls, codec {stub,zlib,lz4,zstd}, CChunkSize|DChunkSize, CPageSize, index location, temp-file flavour, 0-3 resources) executed fault-free against an independent spec validator + independent decoder + rac.Reader; in 'faults' mode the same workload is then re-executed once per (underlying storage operation, applicable fault kind) - every single-fault position - plus 8 drawn double faults. distinct = distinct workload fingerprints (config, payload hash, partition); non-trivial = at least 2 Write calls or at least one fault point enumerated",
		Real: []string{"lib/rac Writer, ChunkWriter, Reader, ChunkReader", "lib/raczlib, lib/raclz4, lib/raczstd (cgo), lib/zlibcut, lib/flatecut, lib/internal/racdict"},
		Stub: []string{"io.Writer and TempFile (simulated disk with numbered fault points)", "stub identity codec 'verifID' (long codec, supports Cut and secondary+tertiary resources) in about half of the runs"},
		Assumptions: []string{"storage faults respect the io.Writer/io.Reader contracts (no silent short write)", "the structural validator is an independent reading of doc/spec/rac-spec.md"},
	})
}
