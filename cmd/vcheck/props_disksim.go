package main

func init() {
	register(&propDef{
		ID: "C13", Engine: "disksim", Pkg: "./engines/disksim", Level: "fault_enumeration",
		// Tiers are sized by work (runs, and the per-run fault-point cap in
		// c13.go), so that evaluations are a function of (seed, tier) alone;
		// MaxSec is only a safety net.
		Runs:        map[string]int{"quick": 1600, "thorough": 60000},
		MaxSec:      map[string]float64{"quick": 400, "thorough": 3000},
		Rule:        "one run = one tape-drawn workload (payload class/length, partition into Write calls, codec {stub,zlib,lz4,zstd}, CChunkSize|DChunkSize, CPageSize, index location, temp-file flavour, 0-3 resources) executed fault-free against an independent spec validator + independent decoder + rac.Reader; in 'faults' mode the same workload is then re-executed once per (underlying storage operation, applicable fault kind) - every single-fault position - plus 8 drawn double faults. distinct = distinct workload fingerprints (config, payload hash, partition); non-trivial = at least 2 Write calls or at least one fault point enumerated",
		Real:        []string{"lib/rac Writer, ChunkWriter, Reader, ChunkReader", "lib/raczlib, lib/raclz4, lib/raczstd (cgo), lib/zlibcut, lib/flatecut, lib/internal/racdict"},
		Stub:        []string{"io.Writer and TempFile (simulated disk with numbered fault points)", "stub identity codec 'verifID' (long codec, supports Cut and secondary+tertiary resources) in about half of the runs"},
		Assumptions: []string{"storage faults respect the io.Writer/io.Reader contracts (no silent short write)", "the structural validator is an independent reading of doc/spec/rac-spec.md"},
	})
}

func init() {
	register(&propDef{
		ID: "C15", Engine: "disksim", Pkg: "./engines/disksim", Level: "exploration",
		Runs:        map[string]int{"quick": 60000, "thorough": 3000000},
		MaxSec:      map[string]float64{"quick": 120, "thorough": 2400},
		Rule:        "one run = one byte string presented as a RAC file: a valid file written by the real rac.Writer (stub or zlib codec) or a node graph assembled directly from the spec (chains of depth 1..120, with or without a cycle), damaged before open by 0-3 mutations (13 structured index-node mutations with the checksum repaired 7 times in 8; bit/byte flips, truncation, zeroed span, duplicated span, torn tail; claimed size != real size), then opened, walked, seeked and decoded through ChunkReader and rac.Reader on an operation-counting disk. distinct = distinct (file bytes, claimed size) hashes; non-trivial = at least one mutation or a hand-assembled graph",
		Real:        []string{"lib/rac ChunkReader, Reader; lib/readerat; lib/raczlib; lib/internal/racdict"},
		Stub:        []string{"io.ReadSeeker / io.ReaderAt (op-counting immutable simulated disk; budget exhaustion fails the operation)", "stub codec reader for the 'verifID' long codec"},
		Assumptions: []string{"the stored bytes do not change while a reader is open", "work bound: 16*(CompressedSize/32)+64 disk operations per ChunkReader call, which every spec-legal structure meets (no node repeats on a root-to-leaf path under the anti-loop rule)"},
	})
}
