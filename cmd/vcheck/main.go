// vcheck is the driver of every check registered in MANIFEST.json.
//
//	vcheck run <id> [--tier quick|thorough] [--runs N] [--workers N]
//	vcheck replay <file>
//	vcheck determinism <id> [--runs N]
//
// It links nothing from /repo: every invocation rebuilds the engine binary
// (and whatever generated code it needs) from /repo's current working tree.
package main

import (
	"encoding/json"
	"fmt"
	"os"
	"os/exec"
	"path/filepath"
	"runtime"
	"sort"
	"strconv"
	"strings"
	"sync"
	"time"

	"verif/sim"
)

const verifRoot = "/verif"
const repoRoot = "/repo"

type prepCtx struct {
	Prop      string
	Tier      string
	Seed      uint64
	Scratch   string
	BuildArgs []string
	BuildEnv  []string
	Extra     map[string]string
	Notes     []string
	// RaceBuild asks for a second engine binary built with -race; a quarter
	// of the workers (w%4==3) then run it.
	RaceBuild bool
	RaceBin   string
}

type propDef struct {
	ID      string
	Engine  string
	Pkg     string
	Level   string
	Runs    map[string]int
	MaxSec  map[string]float64
	Prepare func(c *prepCtx) error
	// Post runs after the workers, before the verdict; it may add
	// violations found by whole-batch oracles (e.g. cross-run hash equality).
	Rule        string
	Real        []string
	Stub        []string
	Assumptions []string
	Shrink      int
}

var registry = map[string]*propDef{}

func register(p *propDef) { registry[p.ID] = p }

func goEnv(extra ...string) []string {
	env := os.Environ()
	env = append(env,
		"GOFLAGS=-mod=mod", "GOPROXY=off", "GOSUMDB=off", "GOTOOLCHAIN=local", "GONOSUMDB=*", "GONOSUMCHECK=1")
	return append(env, extra...)
}

var scratchDirs []string

func die2(format string, a ...interface{}) {
	fmt.Fprintf(os.Stderr, "vcheck: harness trouble (no verdict): "+format+"\n", a...)
	if os.Getenv("VCHECK_KEEP") == "" {
		for _, d := range scratchDirs {
			os.RemoveAll(d)
		}
	}
	os.Exit(2)
}

func envInt(name string, def uint64) uint64 {
	if s := os.Getenv(name); s != "" {
		if v, err := strconv.ParseUint(s, 10, 64); err == nil {
			return v
		}
		if v, err := strconv.ParseInt(s, 10, 64); err == nil {
			return uint64(v)
		}
	}
	return def
}

func main() {
	if len(os.Args) < 2 {
		fmt.Fprintln(os.Stderr, "usage: vcheck run|replay|determinism ...")
		os.Exit(2)
	}
	switch os.Args[1] {
	case "run":
		os.Exit(cmdRun(os.Args[2:]))
	case "replay":
		os.Exit(cmdReplay(os.Args[2:]))
	case "determinism":
		os.Exit(cmdDeterminism(os.Args[2:]))
	case "list":
		ids := []string{}
		for id := range registry {
			ids = append(ids, id)
		}
		sort.Strings(ids)
		fmt.Println(strings.Join(ids, " "))
	default:
		if f, ok := debugCmds[os.Args[1]]; ok {
			os.Exit(f(os.Args[2:]))
		}
		fmt.Fprintln(os.Stderr, "unknown command")
		os.Exit(2)
	}
}

var debugCmds = map[string]func([]string) int{}

type runArgs struct {
	id      string
	tier    string
	runs    int
	workers int
	maxsec  float64
	keep    bool
	noEvid  bool
}

func parseRunArgs(args []string) runArgs {
	ra := runArgs{tier: os.Getenv("VERIF_TIER")}
	for i := 0; i < len(args); i++ {
		a := args[i]
		next := func() string {
			i++
			if i >= len(args) {
				die2("missing value for %s", a)
			}
			return args[i]
		}
		switch a {
		case "--tier", "-tier":
			ra.tier = next()
		case "--runs", "-runs":
			ra.runs, _ = strconv.Atoi(next())
		case "--workers", "-workers":
			ra.workers, _ = strconv.Atoi(next())
		case "--maxsec", "-maxsec":
			ra.maxsec, _ = strconv.ParseFloat(next(), 64)
		case "--keep":
			ra.keep = true
		case "--no-evidence":
			ra.noEvid = true
		default:
			if strings.HasPrefix(a, "-") {
				die2("unknown flag %s", a)
			}
			ra.id = a
		}
	}
	if ra.tier == "" {
		ra.tier = "quick"
	}
	if ra.tier != "quick" && ra.tier != "thorough" {
		die2("bad tier %q", ra.tier)
	}
	if ra.workers <= 0 {
		ra.workers = runtime.NumCPU()
		if ra.workers > 16 {
			ra.workers = 16
		}
	}
	return ra
}

// buildEngine prepares and builds the engine for a property into scratch.
func buildEngine(p *propDef, tier string, seed uint64, scratch string) (bin string, ctx *prepCtx) {
	ctx = &prepCtx{Prop: p.ID, Tier: tier, Seed: seed, Scratch: scratch, Extra: map[string]string{}}
	if p.Prepare != nil {
		if err := p.Prepare(ctx); err != nil {
			die2("prepare %s: %v", p.ID, err)
		}
	}
	bin = filepath.Join(scratch, "engine-"+p.Engine)
	args := append([]string{"build", "-o", bin}, ctx.BuildArgs...)
	args = append(args, p.Pkg)
	cmd := exec.Command("go", args...)
	cmd.Dir = verifRoot
	cmd.Env = goEnv(ctx.BuildEnv...)
	out, err := cmd.CombinedOutput()
	if err != nil {
		die2("building engine %s from the working tree failed: %v\n%s", p.Engine, err, out)
	}
	if ctx.RaceBuild {
		ctx.RaceBin = bin + "-race"
		args := append([]string{"build", "-race", "-o", ctx.RaceBin}, ctx.BuildArgs...)
		args = append(args, p.Pkg)
		cmd := exec.Command("go", args...)
		cmd.Dir = verifRoot
		cmd.Env = goEnv(ctx.BuildEnv...)
		if out, err := cmd.CombinedOutput(); err != nil {
			die2("building -race engine %s from the working tree failed: %v\n%s", p.Engine, err, out)
		}
	}
	return bin, ctx
}

func mkScratch(id string) string {
	base := os.Getenv("TMPDIR")
	if base == "" {
		base = "/tmp"
	}
	d, err := os.MkdirTemp(base, "verif-"+id+"-")
	if err != nil {
		die2("mktemp: %v", err)
	}
	scratchDirs = append(scratchDirs, d)
	return d
}

type aggregate struct {
	Runs, Nontrivial, Steps, Ticks int64
	Faults, Probes, ModeRuns       map[string]int64
	FPs, States                    map[uint64]struct{}
	Violations                     []sim.Violation
	Samples                        []json.RawMessage
	Truncated                      bool
}

func runWorkers(p *propDef, bin string, ctx *prepCtx, ra runArgs, seed uint64, outDir string, replayDir string) *aggregate {
	runs := ra.runs
	if runs <= 0 {
		runs = p.Runs[ra.tier]
	}
	maxsec := ra.maxsec
	if maxsec <= 0 {
		maxsec = p.MaxSec[ra.tier]
	}
	if maxsec <= 0 {
		maxsec = 600
	}
	shrink := p.Shrink
	if shrink <= 0 {
		shrink = 400
	}
	extra, _ := json.Marshal(ctx.Extra)
	var knownKeys []string
	for _, e := range sim.LoadKnownFindings(filepath.Join(verifRoot, "known_findings.json")).Open(p.ID) {
		knownKeys = append(knownKeys, e.Key)
	}
	knownJSON, _ := json.Marshal(knownKeys)
	var wg sync.WaitGroup
	errs := make([]error, ra.workers)
	outs := make([][]byte, ra.workers)
	for w := 0; w < ra.workers; w++ {
		wg.Add(1)
		go func(w int) {
			defer wg.Done()
			wbin := bin
			if ctx.RaceBin != "" && w%4 == 3 {
				wbin = ctx.RaceBin
			}
			cmd := exec.Command(wbin, "worker",
				"-prop", p.ID, "-seed", strconv.FormatUint(seed, 10),
				"-worker", strconv.Itoa(w), "-nworkers", strconv.Itoa(ra.workers),
				"-runs", strconv.Itoa(runs), "-maxsec", fmt.Sprintf("%g", maxsec),
				"-tier", ra.tier, "-out", outDir, "-replays", replayDir,
				"-extra", string(extra), "-shrink", strconv.Itoa(shrink), "-known", string(knownJSON))
			cmd.Dir = ctx.Scratch
			procs := os.Getenv("VCHECK_GOMAXPROCS")
			if procs == "" {
				procs = "2"
			}
			cmd.Env = append(os.Environ(), "GOMAXPROCS="+procs, "GOTRACEBACK=single",
				"GORACE=halt_on_error=0 exitcode=0 log_path="+filepath.Join(outDir, fmt.Sprintf("race-w%d", w)))
			done := make(chan struct{})
			go func() {
				select {
				case <-done:
				case <-time.After(time.Duration((maxsec*3 + 300) * float64(time.Second))):
					cmd.Process.Kill()
				}
			}()
			outs[w], errs[w] = cmd.CombinedOutput()
			close(done)
		}(w)
	}
	wg.Wait()
	ag := &aggregate{Faults: map[string]int64{}, Probes: map[string]int64{}, ModeRuns: map[string]int64{},
		FPs: map[uint64]struct{}{}, States: map[uint64]struct{}{}}
	for w := 0; w < ra.workers; w++ {
		if errs[w] != nil {
			os.MkdirAll(filepath.Join(verifRoot, ".cache"), 0o755)
			logPath := filepath.Join(verifRoot, ".cache", fmt.Sprintf("worker-crash-%s-w%d.log", p.ID, w))
			os.WriteFile(logPath, outs[w], 0o644)
			head := outs[w]
			if len(head) > 3000 {
				head = head[:3000]
			}
			die2("worker %d of %s failed: %v (full output in %s)\n%s", w, p.ID, errs[w], logPath, head)
		}
		b, err := os.ReadFile(filepath.Join(outDir, fmt.Sprintf("w%d.json", w)))
		if err != nil {
			die2("worker %d wrote no result: %v", w, err)
		}
		var r sim.WorkerResult
		if err := json.Unmarshal(b, &r); err != nil {
			die2("worker %d result unreadable: %v", w, err)
		}
		ag.Runs += r.Runs
		ag.Nontrivial += r.Nontrivial
		ag.Steps += r.Steps
		ag.Ticks += r.Ticks
		for k, v := range r.Faults {
			ag.Faults[k] += v
		}
		for k, v := range r.Probes {
			ag.Probes[k] += v
		}
		for k, v := range r.ModeRuns {
			ag.ModeRuns[k] += v
		}
		ag.Violations = append(ag.Violations, r.Violations...)
		if len(ag.Samples) < 4 {
			ag.Samples = append(ag.Samples, r.Samples...)
		}
		ag.Truncated = ag.Truncated || r.Truncated
		if err := sim.ReadU64s(r.FPFile, ag.FPs); err != nil {
			die2("fps: %v", err)
		}
		if err := sim.ReadU64s(r.StateFile, ag.States); err != nil {
			die2("states: %v", err)
		}
	}
	sort.Slice(ag.Violations, func(i, j int) bool { return ag.Violations[i].Run < ag.Violations[j].Run })
	return ag
}

func cmdRun(args []string) int {
	ra := parseRunArgs(args)
	p := registry[ra.id]
	if p == nil {
		die2("unknown property %q", ra.id)
	}
	seed := envInt("VERIF_SEED", 1)
	start := time.Now()
	scratch := mkScratch(p.ID)
	if !ra.keep {
		defer os.RemoveAll(scratch)
	}
	replayDir := filepath.Join(verifRoot, "replays")
	os.MkdirAll(replayDir, 0o755)
	outDir := filepath.Join(scratch, "out")
	os.MkdirAll(outDir, 0o755)

	bin, ctx := buildEngine(p, ra.tier, seed, scratch)
	buildS := time.Since(start).Seconds()
	ag := runWorkers(p, bin, ctx, ra, seed, outDir, replayDir)

	// Verdict.
	kf := sim.LoadKnownFindings(filepath.Join(verifRoot, "known_findings.json"))
	open := kf.Open(p.ID)
	observed := map[string]bool{}
	var fresh []sim.Violation
	seen := map[string]bool{}
	for _, v := range ag.Violations {
		if kf.IsOpen(p.ID, v.Key) {
			observed[v.Key] = true
			if v.Replay != "" {
				os.Remove(v.Replay)
			}
			continue
		}
		if seen[v.Class+"|"+v.Key] {
			os.Remove(v.Replay)
			continue
		}
		seen[v.Class+"|"+v.Key] = true
		fresh = append(fresh, v)
	}
	for _, e := range open {
		obs := "not re-observed in this run"
		if observed[e.Key] {
			obs = "re-observed in this run"
		}
		fmt.Printf("KNOWN-FINDING: property=%s %s [key=%s; %s]\n", p.ID, e.What, e.Key, obs)
	}

	// Replay each fresh violation in a fresh process before reporting it. A
	// VIOLATION line is printed only for a failure whose replay file
	// reproduces the same class in a new process, with the same kind of
	// binary that observed it. Anything else is a defect of this machinery
	// (exit 2, no verdict) - never an alarm about /repo.
	code := 0
	reported := 0
	for _, v := range fresh {
		if v.Class == "" {
			fmt.Fprintf(os.Stderr, "vcheck: internal error: worker reported a violation with an empty class (run=%d)\n", v.Run)
			os.Remove(v.Replay)
			code = 2
			continue
		}
		rbin := bin
		if v.Class == "data_race" && ctx.RaceBin != "" {
			rbin = ctx.RaceBin
		}
		extra, _ := json.Marshal(ctx.Extra)
		cmd := exec.Command(rbin, "replay", "-quiet", "-extra", string(extra), v.Replay)
		cmd.Dir = ctx.Scratch
		cmd.Env = append(os.Environ(), "GOTRACEBACK=single",
			"GORACE=halt_on_error=0 exitcode=0 log_path="+filepath.Join(outDir, fmt.Sprintf("race-replay-%d", v.Run)))
		out, err := cmd.CombinedOutput()
		rc := 0
		if ee, ok := err.(*exec.ExitError); ok {
			rc = ee.ExitCode()
		} else if err != nil {
			rc = 2
		}
		if rc != 1 {
			fmt.Fprintf(os.Stderr, "vcheck: UNREPRODUCIBLE class=%s key=%s run=%d: the replay file did not reproduce it in a fresh process (rc=%d, reproduced in-process=%v). This is a harness defect (state leaking between runs, or an oracle that is not a function of the tape); no verdict.\n%s\n",
				v.Class, v.Key, v.Run, rc, v.Replayed, out)
			code = 2
			continue
		}
		fmt.Printf("VIOLATION property=%s replay=%s\n", p.ID, v.Replay)
		fmt.Printf("  class=%s key=%s run=%d mode=%s tape=%d (from %d, %d shrink executions)\n  %s\n",
			v.Class, v.Key, v.Run, v.Mode, v.TapeLen, v.OrigLen, v.ShrinkN, v.Detail)
		reported++
	}
	if reported > 0 {
		code = 1
	}

	wall := time.Since(start).Seconds()
	if !ra.noEvid {
		writeEvidence(p, ra, seed, ag, ctx, wall, buildS, reported, observed)
	}
	fmt.Printf("%s tier=%s seed=%d runs=%d nontrivial=%d distinct=%d states=%d steps=%d violations=%d wall=%.1fs (build %.1fs)%s\n",
		p.ID, ra.tier, seed, ag.Runs, ag.Nontrivial, len(ag.FPs), len(ag.States), ag.Steps, reported, wall, buildS,
		map[bool]string{true: " TRUNCATED-BY-TIME", false: ""}[ag.Truncated])
	return code
}

func writeEvidence(p *propDef, ra runArgs, seed uint64, ag *aggregate, ctx *prepCtx, wall, buildS float64, violations int, observed map[string]bool) {
	samples := []interface{}{}
	for _, s := range ag.Samples {
		var v interface{}
		if json.Unmarshal(s, &v) == nil {
			samples = append(samples, v)
		}
		if len(samples) >= 3 {
			break
		}
	}
	for _, v := range ag.Violations {
		if len(samples) >= 5 {
			break
		}
		samples = append(samples, map[string]interface{}{"violation_class": v.Class, "key": v.Key, "run": v.Run, "detail": v.Detail, "replay": v.Replay})
	}
	if len(samples) == 0 {
		samples = append(samples, map[string]interface{}{"note": "no passing non-trivial sample captured"})
	}
	zero := []string{}
	for k, v := range ag.Probes {
		if v == 0 {
			zero = append(zero, k)
		}
	}
	sort.Strings(zero)
	runWall := wall - buildS
	if runWall <= 0 {
		runWall = 0.001
	}
	cov := map[string]interface{}{
		"evaluations":               ag.Runs,
		"distinct_nontrivial":       len(ag.FPs),
		"nontrivial_runs":           ag.Nontrivial,
		"rule":                      p.Rule,
		"samples":                   samples,
		"exhaustive":                false,
		"runs_per_hour":             int64(float64(ag.Runs) / runWall * 3600),
		"simulated_steps":           ag.Steps,
		"simulated_ticks":           ag.Ticks,
		"faults_fired":              ag.Faults,
		"probes":                    ag.Probes,
		"probes_at_zero":            zero,
		"mode_runs":                 ag.ModeRuns,
		"distinct_abstract_states":  len(ag.States),
		"components_real":           p.Real,
		"components_stubbed":        p.Stub,
		"workers":                   ra.workers,
		"truncated_by_time":         ag.Truncated,
		"build_s":                   buildS,
		"known_findings_reobserved": keys(observed),
		"notes":                     ctx.Notes,
	}
	ev := map[string]interface{}{
		"property_id": p.ID,
		"tier":        ra.tier,
		"seed":        seed,
		"level":       p.Level,
		"coverage":    cov,
		"assumptions": p.Assumptions,
		"wall_s":      wall,
		"violations":  violations,
	}
	b, _ := json.MarshalIndent(ev, "", " ")
	dir := filepath.Join(verifRoot, "evidence")
	os.MkdirAll(dir, 0o755)
	if err := os.WriteFile(filepath.Join(dir, p.ID+".json"), b, 0o644); err != nil {
		die2("evidence: %v", err)
	}
}

func keys(m map[string]bool) []string {
	out := []string{}
	for k := range m {
		out = append(out, k)
	}
	sort.Strings(out)
	return out
}

func cmdReplay(args []string) int {
	if len(args) != 1 {
		die2("usage: vcheck replay FILE")
	}
	b, err := os.ReadFile(args[0])
	if err != nil {
		die2("%v", err)
	}
	var rf sim.ReplayFile
	if err := json.Unmarshal(b, &rf); err != nil {
		die2("%v", err)
	}
	p := registry[rf.Property]
	if p == nil {
		die2("unknown property %q", rf.Property)
	}
	scratch := mkScratch(p.ID + "-replay")
	defer os.RemoveAll(scratch)
	bin, ctx := buildEngine(p, rf.Tier, rf.Seed, scratch)
	extra, _ := json.Marshal(ctx.Extra)
	abs, _ := filepath.Abs(args[0])
	if rf.Class == "data_race" && ctx.RaceBin != "" {
		// Only the -race build can observe it.
		bin = ctx.RaceBin
	}
	cmd := exec.Command(bin, "replay", "-extra", string(extra), abs)
	cmd.Dir = scratch
	cmd.Env = append(os.Environ(), "GOTRACEBACK=single", "GORACE=halt_on_error=0 exitcode=0")
	cmd.Stdout = os.Stdout
	cmd.Stderr = os.Stderr
	err = cmd.Run()
	if ee, ok := err.(*exec.ExitError); ok {
		if ee.ExitCode() == 1 {
			fmt.Printf("VIOLATION property=%s replay=%s\n", rf.Property, abs)
		}
		return ee.ExitCode()
	} else if err != nil {
		return 2
	}
	return 0
}

// cmdDeterminism executes the same (seed, runs) under different worker counts
// and GOMAXPROCS settings and compares everything a run can influence:
// fingerprint sets, abstract-state sets, fault/probe/step counters and the
// violation list.
func cmdDeterminism(args []string) int {
	ra := parseRunArgs(args)
	p := registry[ra.id]
	if p == nil {
		die2("unknown property %q", ra.id)
	}
	if ra.runs <= 0 {
		ra.runs = 64
	}
	seed := envInt("VERIF_SEED", 1)
	scratch := mkScratch(p.ID + "-det")
	defer os.RemoveAll(scratch)
	bin, ctx := buildEngine(p, ra.tier, seed, scratch)
	type cfg struct {
		workers int
		procs   string
	}
	cfgs := []cfg{{1, "1"}, {4, "4"}, {16, "16"}, {7, "2"}}
	var ref string
	ok := true
	for i, c := range cfgs {
		outDir := filepath.Join(scratch, fmt.Sprintf("out%d", i))
		rdir := filepath.Join(scratch, fmt.Sprintf("rep%d", i))
		os.MkdirAll(outDir, 0o755)
		os.MkdirAll(rdir, 0o755)
		r2 := ra
		r2.workers = c.workers
		r2.maxsec = 100000
		os.Setenv("VCHECK_GOMAXPROCS", c.procs)
		ag := runWorkers(p, bin, ctx, r2, seed, outDir, rdir)
		sum := summarise(ag)
		if i == 0 {
			ref = sum
		} else if sum != ref {
			ok = false
			fmt.Printf("DETERMINISM MISMATCH config %+v\n--- ref\n%s\n--- got\n%s\n", c, ref, sum)
		}
		fmt.Printf("determinism %s: workers=%d GOMAXPROCS=%s runs=%d distinct=%d digest=%016x\n", p.ID, c.workers, c.procs, ag.Runs, len(ag.FPs), sim.Hash64([]byte(sum)))
	}
	if !ok {
		return 1
	}
	return 0
}

func summarise(ag *aggregate) string {
	var sb strings.Builder
	fmt.Fprintf(&sb, "runs=%d nontrivial=%d steps=%d ticks=%d\n", ag.Runs, ag.Nontrivial, ag.Steps, ag.Ticks)
	dump := func(name string, m map[string]int64) {
		ks := []string{}
		for k := range m {
			ks = append(ks, k)
		}
		sort.Strings(ks)
		for _, k := range ks {
			fmt.Fprintf(&sb, "%s %s=%d\n", name, k, m[k])
		}
	}
	dump("fault", ag.Faults)
	dump("probe", ag.Probes)
	dump("mode", ag.ModeRuns)
	set := func(name string, m map[uint64]struct{}) {
		ks := make([]uint64, 0, len(m))
		for k := range m {
			ks = append(ks, k)
		}
		sort.Slice(ks, func(i, j int) bool { return ks[i] < ks[j] })
		h := sim.NewFP()
		for _, k := range ks {
			h.Add(k)
		}
		fmt.Fprintf(&sb, "%s n=%d h=%016x\n", name, len(ks), h.Sum())
	}
	set("fps", ag.FPs)
	set("states", ag.States)
	for _, v := range ag.Violations {
		fmt.Fprintf(&sb, "viol run=%d class=%s key=%s\n", v.Run, v.Class, v.Key)
	}
	return sb.String()
}
