package main

import (
	"crypto/sha256"
	"encoding/hex"
	"fmt"
	"os"
	"os/exec"
	"path/filepath"
	"sync"
)

type csimVariant struct {
	name  string
	flags []string
}

// The sanitizer set is -fsanitize=address,undefined minus pointer-overflow.
// That sub-check reports `NULL + 0` pointer arithmetic (io_writer.set computing
// data.ptr + data.len for the valid empty slice {NULL, 0}, e.g. a zero-length
// work buffer). It is not a memory access, and C03 enumerates what it forbids
// (out-of-bounds or misaligned access, signed overflow, invalid shift, null
// dereference): reporting it would demand more than the property states. A
// computed pointer that is actually dereferenced out of bounds is still caught
// by ASan.
var csimVariants = map[string]csimVariant{
	"asan":         {"asan", []string{"-O1", "-g", "-fsanitize=address,undefined", "-fno-sanitize=pointer-overflow", "-fno-sanitize=nonnull-attribute", "-fno-sanitize-recover=undefined", "-fno-omit-frame-pointer"}},
	"plain":        {"plain", []string{"-O2"}},
	"asan_nosimd":  {"asan_nosimd", []string{"-O1", "-g", "-fsanitize=address,undefined", "-fno-sanitize=pointer-overflow", "-fno-sanitize=nonnull-attribute", "-fno-sanitize-recover=undefined", "-fno-omit-frame-pointer", "-DWUFFS_CONFIG__AVOID_CPU_ARCH"}},
	"plain_nosimd": {"plain_nosimd", []string{"-O2", "-DWUFFS_CONFIG__AVOID_CPU_ARCH"}},
}

// prepareCsim builds `wuffs` and `wuffs-c` from the working tree, runs
// `wuffs gen std/...` in a scratch root (outside any git work tree: the tool
// stamps `git rev-parse HEAD` of its root into the release), and compiles the
// driver against the generated release file, once per requested variant.
// Compiled drivers are cached by the sha256 of (generated C, driver source,
// flags, compiler version): nothing is reused when one byte of the generated
// C changes.
func prepareCsimWith(variants ...string) func(c *prepCtx) error {
	return func(c *prepCtx) error {
		bin := filepath.Join(c.Scratch, "tools")
		os.MkdirAll(bin, 0o755)
		for _, tool := range []string{"wuffs", "wuffs-c"} {
			cmd := exec.Command("go", "build", "-o", filepath.Join(bin, tool), "github.com/google/wuffs/cmd/"+tool)
			cmd.Dir = verifRoot
			cmd.Env = goEnv()
			if out, err := cmd.CombinedOutput(); err != nil {
				return fmt.Errorf("the working tree's %s does not build: %v\n%s", tool, err, out)
			}
		}
		root := filepath.Join(c.Scratch, "wuffsroot")
		os.MkdirAll(root, 0o755)
		if out, err := exec.Command("cp", "-r", filepath.Join(repoRoot, "std"), filepath.Join(root, "std")).CombinedOutput(); err != nil {
			return fmt.Errorf("copying std/: %v %s", err, out)
		}
		if out, err := exec.Command("cp", filepath.Join(repoRoot, "wuffs-root-directory.txt"), root).CombinedOutput(); err != nil {
			return fmt.Errorf("copying root marker: %v %s", err, out)
		}
		gen := exec.Command(filepath.Join(bin, "wuffs"), "gen", "std/...")
		gen.Dir = root
		gen.Env = append(os.Environ(), "PATH="+bin+":"+os.Getenv("PATH"))
		if out, err := gen.CombinedOutput(); err != nil {
			return fmt.Errorf("`wuffs gen std/...` from the working tree failed (no verdict: whether the compiler accepts std/ is not this property's subject): %v\n%s", err, tail(out, 3000))
		}
		rel := filepath.Join(root, "release", "c", "wuffs-unsupported-snapshot.c")
		relBytes, err := os.ReadFile(rel)
		if err != nil {
			return fmt.Errorf("generated release file missing: %v", err)
		}
		drvSrc := filepath.Join(verifRoot, "csim", "driver.c")
		drvBytes, err := os.ReadFile(drvSrc)
		if err != nil {
			return err
		}
		ver, _ := exec.Command("clang-14", "--version").Output()
		cacheDir := filepath.Join(verifRoot, ".cache", "csim")
		os.MkdirAll(cacheDir, 0o755)
		var wg sync.WaitGroup
		errs := make([]error, len(variants))
		paths := make([]string, len(variants))
		hits := make([]bool, len(variants))
		for i, vn := range variants {
			v, ok := csimVariants[vn]
			if !ok {
				return fmt.Errorf("unknown csim variant %q", vn)
			}
			h := sha256.New()
			h.Write(relBytes)
			h.Write([]byte{0})
			h.Write(drvBytes)
			h.Write([]byte{0})
			h.Write(ver)
			for _, f := range v.flags {
				h.Write([]byte(f + "\x00"))
			}
			key := hex.EncodeToString(h.Sum(nil))[:32]
			paths[i] = filepath.Join(cacheDir, key+"-"+v.name)
			if fi, err := os.Stat(paths[i]); err == nil && fi.Mode()&0o111 != 0 && fi.Size() > 0 {
				hits[i] = true
				continue
			}
			wg.Add(1)
			go func(i int, v csimVariant) {
				defer wg.Done()
				tmp := paths[i] + fmt.Sprintf(".tmp%d", os.Getpid())
				args := append([]string{}, v.flags...)
				args = append(args, `-DWUFFS_RELEASE_C="`+rel+`"`, "-o", tmp, drvSrc)
				out, err := exec.Command("clang-14", args...).CombinedOutput()
				if err != nil {
					os.Remove(tmp)
					errs[i] = fmt.Errorf("clang-14 rejected the generated C (%s build; no verdict: whether emitted C compiles is C11's subject): %v\n%s", v.name, err, tail(out, 3000))
					return
				}
				errs[i] = os.Rename(tmp, paths[i])
			}(i, v)
		}
		wg.Wait()
		for i, e := range errs {
			if e != nil {
				return e
			}
			c.Extra["drv_"+variants[i]] = paths[i]
			c.Notes = append(c.Notes, fmt.Sprintf("driver %s: %s (cache hit: %v)", variants[i], filepath.Base(paths[i]), hits[i]))
		}
		// Keep the cache bounded: drop binaries not used by this invocation
		// when the directory grows past 12 entries.
		if ents, err := os.ReadDir(cacheDir); err == nil && len(ents) > 12 {
			keep := map[string]bool{}
			for _, p := range paths {
				keep[filepath.Base(p)] = true
			}
			for _, e := range ents {
				if !keep[e.Name()] {
					os.Remove(filepath.Join(cacheDir, e.Name()))
				}
			}
		}
		c.Extra["repo"] = repoRoot
		c.Extra["scratch"] = c.Scratch
		sum := sha256.Sum256(relBytes)
		c.Notes = append(c.Notes, fmt.Sprintf("generated C: %d bytes, sha256 %s, produced at check time by the working tree's wuffs/wuffs-c from the working tree's std/", len(relBytes), hex.EncodeToString(sum[:8])))
		return nil
	}
}

func tail(b []byte, n int) []byte {
	if len(b) > n {
		return b[len(b)-n:]
	}
	return b
}

func init() {
	real := []string{"C generated at check time by the working tree's `wuffs gen std/...` (deflate, zlib, gzip, lzw, bzip2, lzma, xz, lzip decoders and everything they call in base/), compiled by clang-14 with -fsanitize=address,undefined"}
	stub := []string{"the caller: producer, consumer and buffer management are the simulator's (a C driver child executing one call per request; exact-size source allocations so that any read at or beyond wi is an ASan heap overflow)"}
	register(&propDef{
		ID: "C03", Engine: "csim", Pkg: "./engines/csim", Level: "exploration",
		Runs:    map[string]int{"quick": 8000, "thorough": 600000},
		MaxSec:  map[string]float64{"quick": 900, "thorough": 3600},
		Prepare: prepareCsimWith("asan"),
		Rule:    "one run = (decoder, stream from an independent encoder or test/data, 80% with 1-3 stream faults: truncation, bit/byte flip, span deleted/duplicated, splice), delivered under a drawn schedule (source split policy down to 1 byte, late EOF, spurious empty deliveries, source compacted or not, destination grants down to 1 byte, partial drains, compaction with history retention, relocation, work buffer at min or max, object memory pre-filled with zeroes/0xFF/noise) on the ASan+UBSan build. distinct = distinct (stream bytes, stream description, schedule) hashes; non-trivial = at least 2 calls",
		Real:    real, Stub: stub,
		Assumptions: []string{"the caller obeys the contracts the repository's own callers obey (example/zcat, example/mzcat): windows start at ri, closed only once the last byte is present, work buffer of at least workbuf_len().min_incl at a stable address, dst history retained per dst_history_retain_length"},
	})
	register(&propDef{
		ID: "C05", Engine: "csim", Pkg: "./engines/csim", Level: "exploration",
		Runs:    map[string]int{"quick": 3200, "thorough": 200000},
		MaxSec:  map[string]float64{"quick": 900, "thorough": 3600},
		Prepare: prepareCsimWith("asan"),
		Rule:    "one run = (decoder, stream; one third damaged). Reference: one driver loop that never withholds input, output space or work buffer. Then either every single split point of the source (streams up to 2 KiB: exhaustive over that axis for the sampled stream) or one drawn multi-split schedule (as C03). Oracle: identical output bytes and final status, identical consumed count unless the final status is an error. distinct = distinct (stream, schedule) hashes; non-trivial = at least 2 calls / stream of at least 2 bytes",
		Real:    real, Stub: stub,
		Assumptions: []string{"as C03"},
	})
	register(&propDef{
		ID: "C08", Engine: "csim", Pkg: "./engines/csim", Level: "exploration",
		Runs:    map[string]int{"quick": 20000, "thorough": 1000000},
		MaxSec:  map[string]float64{"quick": 900, "thorough": 3600},
		Prepare: prepareCsimWith("asan"),
		Rule:    "one run = one call history of 3-11 steps on one decoder object whose memory starts raw (zeroes, 0xFF or noise, never initialised): initialize (ok, sizeof too small/too big, wrong version), transform_io with valid arguments over a valid or damaged stream delivered in drawn pieces, transform_io with a NULL source or NULL destination; re-initialisation at any point. Checked against an explicit life-cycle state machine (Raw, Ready, Suspended, Disabled, NoClaim) written from doc/note/statuses.md and initialization.md, which predicts exactly the statuses the property names, plus the buffer contract on every call. distinct = distinct (stream, history) hashes; non-trivial = at least 3 steps",
		Real:    real, Stub: stub,
		Assumptions: []string{"no prediction after a failed initialize or after a decode has finished (the property says nothing there)", "io_transformer decoders only: the image decoders' 'bad call sequence' clause and interleaved coroutines are not driven yet"},
	})
	register(&propDef{
		ID: "C09", Engine: "csim", Pkg: "./engines/csim", Level: "exploration",
		Runs:    map[string]int{"quick": 2500, "thorough": 150000},
		MaxSec:  map[string]float64{"quick": 900, "thorough": 3600},
		Prepare: prepareCsimWith("asan", "asan_nosimd", "plain", "plain_nosimd"),
		Rule:    "one run = one (stream, delivery schedule) executed first on the base variant (ASan build with SIMD paths, zeroed memory, default initialize flags) and then on 3-5 drawn variants of the cross product {ASan, -O2} x {SIMD paths, WUFFS_CONFIG__AVOID_CPU_ARCH} x object memory pre-fill {zeroes, 0xFF, noise} x initialize flags {default, ALREADY_ZEROED on zeroed memory, LEAVE_INTERNAL_BUFFERS_UNINITIALIZED} x {fresh object, object memory that just held a decode of another stream} x destination-beyond-wi pre-fill; the portable twin of the base is always one of them. The schedule is drawn from a sub-tape seeded by one draw, so every variant sees the same decisions. Oracle: identical initialize status, final status, output bytes, consumed count and per-call record fingerprint",
		Real:    real, Stub: stub,
		Assumptions: []string{"this VM's CPU has SSE4.2, AVX2, BMI2 and PCLMUL, so the SIMD twins of deflate really run; ARM paths are not reachable here"},
	})
	register(&propDef{
		ID: "C07", Engine: "csim", Pkg: "./engines/csim", Level: "exploration",
		Runs:    map[string]int{"quick": 6000, "thorough": 300000},
		MaxSec:  map[string]float64{"quick": 900, "thorough": 3600},
		Prepare: prepareCsimWith("asan", "plain", "asan_nosimd"),
		Rule:    "one run = (payload class x length up to 60 KB incl. > 32 KiB window, reference encoder and settings: Go flate/zlib/gzip levels incl. stored and Huffman-only with flush patterns, Go lzw, system bzip2 -1..-9, system xz --format=xz|lzma presets 0-6 and 4 integrity checks) decoded under a drawn delivery schedule on the ASan or the -O2 build; oracle: status ok and output == the original payload. The simulated dimension is the delivery schedule; payload x encoder setting is plain seeded generation",
		Real:    real, Stub: stub,
		Assumptions: []string{"Go's compress/* writers and the system bzip2/xz binaries are correct encoders"},
	})
}
