package main

import (
	"fmt"
	"os"

	"verif/rewrite"
)

func init() {
	debugCmds["rewrite-chan"] = func(args []string) int {
		files, st, err := rewrite.RewriteChannels(verifRoot, goEnv(), args[0])
		if err != nil {
			fmt.Fprintln(os.Stderr, err)
			return 2
		}
		fmt.Fprintln(os.Stderr, st)
		for name, b := range files {
			fmt.Printf("==== %s\n%s\n", name, b)
		}
		return 0
	}
}

func init() {
	debugCmds["rewrite-maporder"] = func(args []string) int {
		files, st, err := rewrite.RewriteMapOrder(verifRoot, goEnv(), "github.com/google/wuffs", args...)
		if err != nil {
			fmt.Fprintln(os.Stderr, err)
			return 2
		}
		fmt.Fprintln(os.Stderr, st)
		for name, b := range files {
			fmt.Printf("==== %s\n%s\n", name, b)
		}
		return 0
	}
}
