package main

func init() {
	register(&propDef{
		ID: "C01", Engine: "wsim", Pkg: "./engines/wsim", Level: "exploration",
		Runs:        map[string]int{"quick": 4000, "thorough": 400000},
		MaxSec:      map[string]float64{"quick": 600, "thorough": 3600},
		Rule:        "one run = one Wuffs program (hand corpus, or seeded generator) given to the working tree's tokenizer, parser and checker; if ACCEPTED, executed by a reference interpreter under a seeded history of 1-8 public-method calls with boundary-biased arguments; the C01 monitor checks every statement-position value against the compiler's derived range and every index, slice, shift, division, conversion, assignment, argument and return against actual lengths and types",
		Real:        []string{"lang/token, lang/parse, lang/check of the working tree (the acceptance decision and every MType/MBounds annotation)"},
		Stub:        []string{"the run-time: a tree-walking interpreter over the checked AST in ideal integers (engines/wsim/interp.go) stands in for the generated C"},
		Assumptions: []string{"the interpreter shares the front end with the compiler: a defect there is common-mode and invisible", "programs outside the interpreter's subset are skipped and counted, never reported"},
	})
}
