package main

import (
	"encoding/json"
	"fmt"
	"os"
	"path/filepath"

	"verif/rewrite"
)

// prepareWsimObserver injects the fact observer into the working tree's
// lang/check (overlay only; /repo is not touched) and builds the engine with
// the tag that connects to it.
func prepareWsimObserver(c *prepCtx) error {
	files, err := rewrite.RewriteFactObserver(repoRoot)
	if err != nil {
		return fmt.Errorf("the working tree's lang/check/bounds.go no longer has the shape the fact observer needs (no verdict): %v", err)
	}
	ov, err := rewrite.WriteOverlay(filepath.Join(c.Scratch, "rw"), files)
	if err != nil {
		return err
	}
	b, _ := json.MarshalIndent(map[string]interface{}{"Replace": ov}, "", " ")
	ovPath := filepath.Join(c.Scratch, "overlay-factobs.json")
	if err := os.WriteFile(ovPath, b, 0o644); err != nil {
		return err
	}
	c.BuildArgs = append(c.BuildArgs, "-tags", "wsimobs", "-overlay", ovPath)
	c.Extra["repo"] = repoRoot
	c.Notes = append(c.Notes, "fact observer: one call inserted at the head of (*checker).bcheckBlock's statement loop, from the working tree's bounds.go")
	return nil
}

func init() {
	register(&propDef{
		ID: "C01", Engine: "wsim", Pkg: "./engines/wsim", Level: "exploration",
		Runs:        map[string]int{"quick": 4000, "thorough": 400000},
		MaxSec:      map[string]float64{"quick": 600, "thorough": 3600},
		Rule:        "one run = one Wuffs program (hand corpus, or seeded generator) given to the working tree's tokenizer, parser and checker; if ACCEPTED, executed by a reference interpreter under a seeded history of 1-8 public-method calls with boundary-biased arguments; the C01 monitor checks every statement-position value against the compiler's derived range and every index, slice, shift, division, conversion, assignment, argument and return against actual lengths and types",
		Real:        []string{"lang/token, lang/parse, lang/check of the working tree (the acceptance decision and every MType/MBounds annotation)"},
		Stub:        []string{"the run-time: a tree-walking interpreter over the checked AST in ideal integers (engines/wsim/interp.go) stands in for the generated C"},
		Assumptions: []string{"the interpreter shares the front end with the compiler: a defect there is common-mode and invisible", "programs outside the interpreter's subset are skipped and counted, never reported"},
	})
	register(&propDef{
		ID: "C02", Engine: "wsim", Pkg: "./engines/wsim", Level: "exploration",
		Runs:        map[string]int{"quick": 6000, "thorough": 600000},
		MaxSec:      map[string]float64{"quick": 600, "thorough": 3600},
		Prepare:     prepareWsimObserver,
		Rule:        "one run = one Wuffs program (hand corpus; seeded near-miss generator; seeded axiom-instance generator reading lang/check/axioms.md of the working tree) given to the working tree's checker, whose fact list before every statement is recorded through an observer injected at check time; if ACCEPTED, the program is executed by the reference interpreter under a seeded history of public calls on one persistent receiver, and every time execution reaches a statement - every loop iteration, every call - each recorded fact is evaluated in ideal integers on the concrete state and must be true. Facts the evaluator cannot interpret are counted as skipped, never reported",
		Real:        []string{"lang/token, lang/parse, lang/check of the working tree: the acceptance decision, the fact list at every statement (facts from if/while conditions, assignments, asserts, axioms; fact dropping and rewriting on =, +=, -=, impure calls; if/else reconciliation; loop pre/inv/post)"},
		Stub:        []string{"the run-time: a tree-walking interpreter over the checked AST in ideal integers (engines/wsim/interp.go)", "the observation point: one call inserted into bcheckBlock through go build -overlay"},
		Assumptions: []string{"the interpreter shares the front end with the compiler (common-mode)", "coroutines and I/O built-ins are outside the interpreter's subset, so fact invalidation at suspension points is not reached by this check (std/ under engine C reaches the consequences only)"},
	})
}
