package main

import (
	"encoding/json"
	"fmt"
	"os"
	"os/exec"
	"path/filepath"

	"verif/rewrite"
)

// prepareWsimC builds wuffs-c from the working tree and generates the base
// library's C once; every run then transpiles and compiles only its own package.
func prepareWsimC(c *prepCtx) error {
	bin := filepath.Join(c.Scratch, "tools")
	os.MkdirAll(bin, 0o755)
	cmd := exec.Command("go", "build", "-o", filepath.Join(bin, "wuffs-c"), "github.com/google/wuffs/cmd/wuffs-c")
	cmd.Dir = verifRoot
	cmd.Env = goEnv()
	if out, err := cmd.CombinedOutput(); err != nil {
		return fmt.Errorf("the working tree's wuffs-c does not build (no verdict): %v\n%s", err, out)
	}
	base, err := exec.Command(filepath.Join(bin, "wuffs-c"), "gen", "-package_name", "base").Output()
	if err != nil {
		return fmt.Errorf("`wuffs-c gen -package_name base` failed (no verdict): %v", err)
	}
	basePath := filepath.Join(c.Scratch, "wuffs-base.c")
	if err := os.WriteFile(basePath, base, 0o644); err != nil {
		return err
	}
	if _, err := exec.LookPath("clang-14"); err != nil {
		return fmt.Errorf("clang-14 not found")
	}
	runs := filepath.Join(c.Scratch, "runs")
	os.MkdirAll(runs, 0o755)
	c.Extra["wuffs_c"] = filepath.Join(bin, "wuffs-c")
	c.Extra["base_c"] = basePath
	c.Extra["scratch"] = runs
	c.Notes = append(c.Notes, fmt.Sprintf("wuffs-c built from the working tree; base library C generated once (%d bytes)", len(base)))
	return nil
}

// prepareWsimObserver injects the fact observer into the working tree's
// lang/check (overlay only; /repo is not touched) and builds the engine with
// the tag that connects to it.
func prepareWsimObserver(c *prepCtx) error {
	files, err := rewrite.RewriteFactObserver(repoRoot)
	if err != nil {
		return fmt.Errorf("the working tree's lang/check/bounds.go no longer has the shape the fact observer needs (no verdict): %v", err)
	}
	ov, err := rewrite.WriteOverlay(filepath.Join(c.Scratch, "rw"), files)
	if err != nil {
		return err
	}
	b, _ := json.MarshalIndent(map[string]interface{}{"Replace": ov}, "", " ")
	ovPath := filepath.Join(c.Scratch, "overlay-factobs.json")
	if err := os.WriteFile(ovPath, b, 0o644); err != nil {
		return err
	}
	c.BuildArgs = append(c.BuildArgs, "-tags", "wsimobs", "-overlay", ovPath)
	c.Extra["repo"] = repoRoot
	c.Notes = append(c.Notes, "fact observer: one call inserted at the head of (*checker).bcheckBlock's statement loop, from the working tree's bounds.go")
	return nil
}

func init() {
	register(&propDef{
		ID: "C01", Engine: "wsim", Pkg: "./engines/wsim", Level: "exploration",
		Runs:        map[string]int{"quick": 30000, "thorough": 400000},
		MaxSec:      map[string]float64{"quick": 600, "thorough": 3600},
		Rule:        "one run = one Wuffs program (hand corpus, or seeded generator) given to the working tree's tokenizer, parser and checker; if ACCEPTED, executed by a reference interpreter under a seeded history of 1-8 public-method calls with boundary-biased arguments; the C01 monitor checks every statement-position value against the compiler's derived range and every index, slice, shift, division, conversion, assignment, argument and return against actual lengths and types",
		Real:        []string{"lang/token, lang/parse, lang/check of the working tree (the acceptance decision and every MType/MBounds annotation)"},
		Stub:        []string{"the run-time: a tree-walking interpreter over the checked AST in ideal integers (engines/wsim/interp.go) stands in for the generated C"},
		Assumptions: []string{"the interpreter shares the front end with the compiler: a defect there is common-mode and invisible", "programs outside the interpreter's subset are skipped and counted, never reported"},
	})
	register(&propDef{
		ID: "C02", Engine: "wsim", Pkg: "./engines/wsim", Level: "exploration",
		Runs:        map[string]int{"quick": 40000, "thorough": 600000},
		MaxSec:      map[string]float64{"quick": 600, "thorough": 3600},
		Prepare:     prepareWsimObserver,
		Rule:        "one run = one Wuffs program (hand corpus; seeded near-miss generator; seeded axiom-instance generator reading lang/check/axioms.md of the working tree) given to the working tree's checker, whose fact list before every statement is recorded through an observer injected at check time; if ACCEPTED, the program is executed by the reference interpreter under a seeded history of public calls on one persistent receiver, and every time execution reaches a statement - every loop iteration, every call - each recorded fact is evaluated in ideal integers on the concrete state and must be true. Facts the evaluator cannot interpret are counted as skipped, never reported",
		Real:        []string{"lang/token, lang/parse, lang/check of the working tree: the acceptance decision, the fact list at every statement (facts from if/while conditions, assignments, asserts, axioms; fact dropping and rewriting on =, +=, -=, impure calls; if/else reconciliation; loop pre/inv/post)"},
		Stub:        []string{"the run-time: a tree-walking interpreter over the checked AST in ideal integers (engines/wsim/interp.go)", "the observation point: one call inserted into bcheckBlock through go build -overlay"},
		Assumptions: []string{"the interpreter shares the front end with the compiler (common-mode)", "io_bind/io_limit, =?, iterate, choose and token I/O are outside the interpreter's subset"},
	})
	register(&propDef{
		ID: "C04", Engine: "wsim", Pkg: "./engines/wsim", Level: "exploration",
		Runs:        map[string]int{"quick": 1600, "thorough": 120000},
		MaxSec:      map[string]float64{"quick": 900, "thorough": 3600},
		Prepare:     prepareWsimC,
		Rule:        "one run = one Wuffs program (operator-stress generator over u8/u16/u32/u64 with modular, saturating, bitwise, shift, division, conversion, min/max/low_bits/high_bits, compound assignment on narrow types, private pure and impure calls, labelled break/continue out of nested loops; the C01 and C02 generators; hand corpus) accepted by the working tree's checker, plus two to four independent seeded histories of public calls, each on a freshly initialised persistent receiver. Each history is executed by the reference interpreter and by the C that the working tree's wuffs-c generates from the same source, compiled by clang-14 (-O0 with ASan+UBSan, or -O2, drawn) and driven by a generated main() performing exactly the recorded calls; compared: every return value, then every scalar field and array element through appended getters",
		Real:        []string{"lang/* front end and internal/cgen + cmd/wuffs-c of the working tree (the C is generated at check time), internal/cgen/base (the base library C is generated at check time), clang-14"},
		Stub:        []string{"the source-level semantics: a tree-walking interpreter in ideal integers (engines/wsim/interp.go)"},
		Assumptions: []string{"the interpreter is the reference for 'what the source means' (written from the language documentation; shares the front end with the compiler)", "programs for which wuffs-c fails or whose C does not compile give no comparison (counted in the evidence, not reported)", "=?, io_bind/io_limit, iterate, choose, SIMD, token I/O and multi-byte writes are outside the interpreter's subset"},
		Shrink:      60,
	})
}
