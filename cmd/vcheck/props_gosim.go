package main

import (
	"encoding/json"
	"fmt"
	"os"
	"path/filepath"

	"verif/rewrite"
)

// prepareGosim rewrites lib/rac's goroutine/channel constructs from the
// working tree, adds the simrt runtime as a virtual package and points the
// engine build at the overlay.
func prepareGosim(c *prepCtx) error {
	files, st, err := rewrite.RewriteChannels(verifRoot, goEnv(), "github.com/google/wuffs/lib/rac")
	if err != nil {
		return fmt.Errorf("rewriting lib/rac: %v", err)
	}
	if len(st.Unsupported) > 0 {
		return fmt.Errorf("lib/rac uses constructs the simulated runtime does not model: %v", st.Unsupported)
	}
	ov, err := rewrite.WriteOverlay(filepath.Join(c.Scratch, "rw"), files)
	if err != nil {
		return err
	}
	simrtDir := filepath.Join(verifRoot, "engines", "gosim", "simrt")
	ents, err := os.ReadDir(simrtDir)
	if err != nil {
		return err
	}
	for _, e := range ents {
		if filepath.Ext(e.Name()) == ".go" {
			ov[filepath.Join(repoRoot, "lib", "simrt", e.Name())] = filepath.Join(simrtDir, e.Name())
		}
	}
	b, _ := json.MarshalIndent(map[string]interface{}{"Replace": ov}, "", " ")
	ovPath := filepath.Join(c.Scratch, "overlay.json")
	if err := os.WriteFile(ovPath, b, 0o644); err != nil {
		return err
	}
	c.BuildArgs = append(c.BuildArgs, "-overlay", ovPath)
	c.RaceBuild = true
	c.Notes = append(c.Notes, "channel rewriter: "+st.String())
	return nil
}

func init() {
	register(&propDef{
		ID: "C14", Engine: "gosim", Pkg: "./engines/gosim", Level: "exploration",
		Runs:        map[string]int{"quick": 40000, "thorough": 2000000},
		MaxSec:      map[string]float64{"quick": 150, "thorough": 3000},
		Prepare:     prepareGosim,
		Rule:        "one run = (RAC file shape, Concurrency, scheduler policy, disk latency profile, call history of 1-15 Read/Seek/SeekRange/Close/CloseWithoutWaiting calls) executed on the real lib/rac Reader whose go/chan/select constructs were rewritten onto the seeded simrt scheduler; every scheduling decision is a tape draw. distinct = distinct (schedule fingerprint, history) hashes; non-trivial = at least 2 goroutines and 2 context switches (concurrent modes) or at least 3 calls (sequential mode)",
		Real:        []string{"lib/rac Reader, concReader (manager/worker protocol), ChunkReader; lib/readerat; lib/raczlib + compress/zlib or cgozlib; lib/internal/racdict"},
		Stub:        []string{"Go channels, select, go statements (simrt: seeded scheduler, one goroutine runs at a time)", "disk (in-memory io.ReaderAt with scheduler-drawn virtual latency)", "stub identity codec for most file shapes"},
		Assumptions: []string{"simrt implements the Go memory model's channel semantics (unit-tested against native channels)", "valid files and single-caller use, as the API documents", "no injected read errors (the property quantifies over valid files)"},
		Shrink:      600,
	})
}
