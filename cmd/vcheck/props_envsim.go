package main

import (
	"crypto/sha256"
	"encoding/hex"
	"encoding/json"
	"fmt"
	"os"
	"os/exec"
	"path/filepath"

	"verif/rewrite"
)

func hashDirs(root string, dirs ...string) (map[string]string, error) {
	out := map[string]string{}
	for _, d := range dirs {
		err := filepath.Walk(filepath.Join(root, d), func(p string, fi os.FileInfo, err error) error {
			if err != nil {
				return err
			}
			if !fi.Mode().IsRegular() {
				return nil
			}
			b, err := os.ReadFile(p)
			if err != nil {
				return err
			}
			s := sha256.Sum256(b)
			rel, _ := filepath.Rel(root, p)
			out[rel] = hex.EncodeToString(s[:])
			return nil
		})
		if err != nil {
			return nil, err
		}
	}
	return out, nil
}

// prepareEnvsim builds the compiler twice from the working tree - as is, and
// with map iteration / directory listing rewritten onto the seeded envsim
// runtime - and produces the reference artefact hashes with the former.
func prepareEnvsim(c *prepCtx) error {
	plain := filepath.Join(c.Scratch, "tools-plain")
	perm := filepath.Join(c.Scratch, "tools-permuted")
	os.MkdirAll(plain, 0o755)
	os.MkdirAll(perm, 0o755)
	for _, tool := range []string{"wuffs", "wuffs-c"} {
		cmd := exec.Command("go", "build", "-o", filepath.Join(plain, tool), "github.com/google/wuffs/cmd/"+tool)
		cmd.Dir = verifRoot
		cmd.Env = goEnv()
		if out, err := cmd.CombinedOutput(); err != nil {
			return fmt.Errorf("the working tree's %s does not build: %v\n%s", tool, err, out)
		}
	}
	files, st, err := rewrite.RewriteMapOrder(verifRoot, goEnv(), "github.com/google/wuffs",
		"github.com/google/wuffs/cmd/wuffs", "github.com/google/wuffs/cmd/wuffs-c")
	if err != nil {
		return fmt.Errorf("map-order rewrite: %v", err)
	}
	if len(st.Unsupported) > 0 {
		return fmt.Errorf("the compiler has map iterations the rewriter cannot control: %v", st.Unsupported)
	}
	ov, err := rewrite.WriteOverlay(filepath.Join(c.Scratch, "rw"), files)
	if err != nil {
		return err
	}
	rt := filepath.Join(verifRoot, "engines", "envsim", "rt", "envsim.go")
	ov[filepath.Join(repoRoot, "lib", "envsim", "envsim.go")] = rt
	b, _ := json.MarshalIndent(map[string]interface{}{"Replace": ov}, "", " ")
	ovPath := filepath.Join(c.Scratch, "overlay-envsim.json")
	if err := os.WriteFile(ovPath, b, 0o644); err != nil {
		return err
	}
	for _, tool := range []string{"wuffs", "wuffs-c"} {
		cmd := exec.Command("go", "build", "-overlay", ovPath, "-o", filepath.Join(perm, tool), "github.com/google/wuffs/cmd/"+tool)
		cmd.Dir = verifRoot
		cmd.Env = goEnv()
		if out, err := cmd.CombinedOutput(); err != nil {
			return fmt.Errorf("the rewritten %s does not build: %v\n%s", tool, err, out)
		}
	}
	// Reference run with the un-rewritten tools.
	root := filepath.Join(c.Scratch, "ref-root")
	os.MkdirAll(root, 0o755)
	if out, err := exec.Command("cp", "-r", filepath.Join(repoRoot, "std"), filepath.Join(root, "std")).CombinedOutput(); err != nil {
		return fmt.Errorf("cp std: %v %s", err, out)
	}
	if out, err := exec.Command("cp", filepath.Join(repoRoot, "wuffs-root-directory.txt"), root).CombinedOutput(); err != nil {
		return fmt.Errorf("cp marker: %v %s", err, out)
	}
	gen := exec.Command(filepath.Join(plain, "wuffs"), "gen", "std/...")
	gen.Dir = root
	gen.Env = append(os.Environ(), "PATH="+plain+":"+os.Getenv("PATH"))
	if out, err := gen.CombinedOutput(); err != nil {
		return fmt.Errorf("`wuffs gen std/...` from the working tree failed (no verdict): %v\n%s", err, tail(out, 3000))
	}
	ref, err := hashDirs(root, "gen", "release")
	if err != nil {
		return err
	}
	rb, _ := json.Marshal(ref)
	refPath := filepath.Join(c.Scratch, "reference.json")
	if err := os.WriteFile(refPath, rb, 0o644); err != nil {
		return err
	}
	c.Extra["reference"] = refPath
	c.Extra["tools_permuted"] = perm
	c.Extra["repo"] = repoRoot
	c.Extra["scratch"] = c.Scratch
	c.Notes = append(c.Notes, "map-order rewriter: "+st.String(), fmt.Sprintf("reference: %d artefacts hashed from the un-rewritten tools' run", len(ref)))
	return nil
}

func init() {
	register(&propDef{
		ID: "C20", Engine: "envsim", Pkg: "./engines/envsim", Level: "exploration",
		// One run is a whole multi-process compilation (2 s alone, far more when
		// 16 run at once), so the quick tier is small; sized by work, MaxSec
		// is only a safety net.
		Runs:        map[string]int{"quick": 64, "thorough": 6000},
		MaxSec:      map[string]float64{"quick": 600, "thorough": 3600},
		Prepare:     prepareEnvsim,
		Rule:        "one run = one whole `wuffs gen std/...` (wuffs + one wuffs-c process per package) by tools built from the working tree with every range-over-map (found by type: 9 sites today) and every directory listing rewritten onto a seeded permutation; per run a drawn permutation seed, GOMAXPROCS in {1,2,4,16}, scratch-root path depth and length, working directory (root, std/, std/gif/) and unrelated environment variables. Oracle: sha256 of every gen/c/*.c, gen/wuffs/** and the release file equals the reference produced by the un-rewritten tools. One run in six instead compares the reference release with the committed snapshot, or lang/check/gen.go's output with the committed data.go. distinct = distinct environment descriptions; every run is non-trivial",
		Real:        []string{"cmd/wuffs, cmd/wuffs-c, lang/*, internal/cgen, lib/dumbindent and everything else the two tools link, compiled from the working tree; std/*.wuffs from the working tree"},
		Stub:        []string{"Go map iteration order and (*os.File).Readdir order (seeded permutation runtime injected with go build -overlay)", "process environment, working directory, root path, GOMAXPROCS (drawn)"},
		Assumptions: []string{"map iteration and directory enumeration are the compiler's only order-nondeterminism sources (the compiler starts no goroutines); a map keyed by pointers would have no canonical order to permute from (none exists today: 8 array-keyed, 1 string-keyed)"},
		Shrink:      20,
	})
}
